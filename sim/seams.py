"""Seams the simulator owns.  Only seams that already exist in virocon / its
dependencies are used (module attributes, `random_state=` parameters, NumPy's
global legacy RNG, `builtins.open`, numpy's opener table, matplotlib Agg)."""

import builtins
import contextlib
import errno
import io
import os
import warnings

import numpy as np

# --------------------------------------------------------------------------
# randomness
# --------------------------------------------------------------------------


_ENTROPY = {"key": 0, "n": 0, "drawn": 0}
_ORIG_DEFAULT_RNG = np.random.default_rng


def _seeded_default_rng(seed=None):
    """OS-entropy seam: `numpy.random.default_rng(None)` (what virocon's rejection
    sampler calls when no random_state is given) would read fresh OS entropy, which
    no seed controls.  Inside the simulator it is a function of the last pin of the
    global RNG and a counter, so an unseeded operation depends on simulator-owned
    state only.  Calls with an explicit seed / Generator are passed through."""
    if seed is None:
        import hashlib

        _ENTROPY["n"] += 1
        _ENTROPY["drawn"] += 1
        h = hashlib.sha256(f"{_ENTROPY['key']}/{_ENTROPY['n']}".encode()).digest()
        return _ORIG_DEFAULT_RNG(int.from_bytes(h[:8], "big"))
    return _ORIG_DEFAULT_RNG(seed)


np.random.default_rng = _seeded_default_rng


def pin_global(k):
    """Re-seed NumPy's global legacy RNG (the 'clock everybody reads') and the
    OS-entropy seam."""
    np.random.seed(int(k) % (2**32))
    _ENTROPY["key"] = int(k)
    _ENTROPY["n"] = 0


@contextlib.contextmanager
def rng_guard():
    """Harness code that might touch the global RNG runs inside this guard so
    that it never perturbs the schedule."""
    st = np.random.get_state()
    try:
        yield
    finally:
        np.random.set_state(st)


@contextlib.contextmanager
def recorded_warnings():
    """Record all warnings with filter 'always' so the once-per-location
    registry (history-dependent global state) cannot hide one."""
    with warnings.catch_warnings(record=True) as w:
        warnings.simplefilter("always")
        yield w


# --------------------------------------------------------------------------
# optimiser seam: virocon._fitting.curve_fit / minimize
# --------------------------------------------------------------------------


class OptimiserShim:
    """Counting wrapper around virocon._fitting.curve_fit / minimize.

    * records every invocation (function object, p0, result / exception);
    * fault F1: at the planned invocation index it raises exactly the exception
      type the real function raises on non-convergence
      (`RuntimeError("Optimal parameters not found: ...")` for curve_fit,
      `OptimizeResult(success=False)` for minimize).
    """

    def __init__(self, fail_at=None):
        import virocon._fitting as vf

        self.vf = vf
        self.fail_at = set(fail_at or ())
        self.calls = []  # dicts
        self.fired = 0
        self._orig_cf = None
        self._orig_min = None

    def __enter__(self):
        vf = self.vf
        self._orig_cf = vf.curve_fit
        self._orig_min = vf.minimize
        shim = self

        def curve_fit(f, xdata, ydata, p0=None, *a, **kw):
            idx = len(shim.calls)
            rec = {"kind": "curve_fit", "idx": idx, "f": f, "p0": p0, "kw": kw}
            shim.calls.append(rec)
            if idx in shim.fail_at:
                shim.fired += 1
                rec["fault"] = True
                raise RuntimeError(
                    "Optimal parameters not found: Number of calls to function has "
                    "reached maxfev = 800."
                )
            try:
                out = shim._orig_cf(f, xdata, ydata, p0, *a, **kw)
            except Exception as e:  # real failure
                rec["exc"] = e
                raise
            rec["popt"] = np.array(out[0], dtype=float)
            return out

        def minimize(fun, x0, *a, **kw):
            idx = len(shim.calls)
            rec = {"kind": "minimize", "idx": idx, "f": fun, "p0": x0, "kw": kw}
            shim.calls.append(rec)
            if idx in shim.fail_at:
                shim.fired += 1
                rec["fault"] = True
                from scipy.optimize import OptimizeResult

                return OptimizeResult(
                    x=np.asarray(x0, dtype=float),
                    success=False,
                    status=9,
                    message="Iteration limit reached",
                    fun=float("nan"),
                    nit=100,
                )
            try:
                out = shim._orig_min(fun, x0, *a, **kw)
            except Exception as e:
                rec["exc"] = e
                raise
            rec["popt"] = np.array(out.x, dtype=float)
            rec["success"] = bool(out.success)
            return out

        vf.curve_fit = curve_fit
        vf.minimize = minimize
        return self

    def __exit__(self, *exc):
        self.vf.curve_fit = self._orig_cf
        self.vf.minimize = self._orig_min
        return False


# --------------------------------------------------------------------------
# file seam: builtins.open + numpy's opener table
# --------------------------------------------------------------------------


class FaultyFile:
    """Proxy over a real file object that injects write/read faults.

    plan keys (all optional):
      enospc_after : int   -> bytes/characters accepted before OSError(ENOSPC)
      eio_write_at : int   -> index of the write() call that raises OSError(EIO)
      eio_flush    : bool  -> flush() raises EIO
      eio_close    : bool  -> close() raises EIO (the real file is still closed)
      short_read   : int   -> read(n) returns at most this many characters
      eio_read_after : int -> characters delivered before read raises EIO
    """

    def __init__(self, real, plan, stats):
        self._f = real
        self._plan = plan or {}
        self._stats = stats
        self._written = 0
        self._nwrite = 0
        self._nread = 0

    # ---- writing ----
    def write(self, s):
        p = self._plan
        k = self._nwrite
        self._nwrite += 1
        self._stats["writes"] = self._stats.get("writes", 0) + 1
        if p.get("eio_write_at") == k:
            self._fire("eio_write")
            raise OSError(errno.EIO, "Input/output error (injected)")
        lim = p.get("enospc_after")
        if lim is not None and self._written + len(s) > lim:
            room = max(0, lim - self._written)
            if room:
                self._f.write(s[:room])
                self._written += room
            self._fire("enospc")
            raise OSError(errno.ENOSPC, "No space left on device (injected)")
        n = self._f.write(s)
        self._written += len(s)
        return n

    def writelines(self, lines):
        for ln in lines:
            self.write(ln)

    def flush(self):
        if self._plan.get("eio_flush"):
            self._fire("eio_flush")
            raise OSError(errno.EIO, "Input/output error on flush (injected)")
        return self._f.flush()

    def close(self):
        if self._f.closed:
            return
        if self._plan.get("eio_close") and not self._plan.get("_close_fired"):
            self._plan["_close_fired"] = True
            self._fire("eio_close")
            try:
                self._f.close()
            finally:
                pass
            raise OSError(errno.EIO, "Input/output error on close (injected)")
        return self._f.close()

    # ---- reading ----
    def read(self, n=-1):
        p = self._plan
        sr = p.get("short_read")
        lim = p.get("eio_read_after")
        if lim is not None and self._nread >= lim:
            self._fire("eio_read")
            raise OSError(errno.EIO, "Input/output error on read (injected)")
        if sr is not None:
            if n is None or n < 0:
                n = sr
            else:
                n = min(n, sr)
            self._fire("short_read")
        if lim is not None:
            room = lim - self._nread
            if n is None or n < 0 or n > room:
                n = room
        data = self._f.read(n)
        self._nread += len(data)
        return data

    def readline(self, *a):
        p = self._plan
        lim = p.get("eio_read_after")
        if lim is not None and self._nread >= lim:
            self._fire("eio_read")
            raise OSError(errno.EIO, "Input/output error on read (injected)")
        data = self._f.readline(*a)
        self._nread += len(data)
        return data

    def __iter__(self):
        return self

    def __next__(self):
        ln = self.readline()
        if not ln:
            raise StopIteration
        return ln

    def _fire(self, kind):
        self._stats["fired_" + kind] = self._stats.get("fired_" + kind, 0) + 1

    def __enter__(self):
        return self

    def __exit__(self, *exc):
        self.close()
        return False

    def __getattr__(self, name):
        return getattr(self._f, name)


class FileSeam:
    """Installs the file seam for paths under `root` only.

    * `builtins.open` (what pandas.read_csv and savetxt's create step call)
    * `numpy.lib._datasource._file_openers[None]` (what savetxt writes through)
    """

    def __init__(self, root):
        self.root = os.path.realpath(root)
        self.plans = {}  # mode class ('w'/'r') -> plan for next open
        self.open_fault = None  # exception to raise on next open for writing
        self.stats = {}
        self.opened = []

    def _mine(self, path):
        try:
            p = os.path.realpath(os.fspath(path))
        except TypeError:
            return False
        return p == self.root or p.startswith(self.root + os.sep)

    def _wrap(self, real_open, path, mode="r", *a, **kw):
        if not self._mine(path):
            return real_open(path, mode, *a, **kw)
        writing = any(c in mode for c in "wax+")
        self.opened.append((os.path.basename(os.fspath(path)), mode))
        if writing and self.open_fault is not None:
            exc = self.open_fault
            self.stats["fired_open_fault"] = self.stats.get("fired_open_fault", 0) + 1
            raise exc
        f = real_open(path, mode, *a, **kw)
        if "b" in mode:
            return f
        plan = self.plans.get("w" if writing else "r")
        if plan is None:
            return f
        return FaultyFile(f, plan, self.stats)

    def __enter__(self):
        import numpy.lib._datasource as ds

        self._ds = ds
        self._orig_open = builtins.open
        # make sure the opener table is populated
        ds._file_openers._load()
        self._orig_np = ds._file_openers._file_openers[None]
        seam = self

        def open_(path, mode="r", *a, **kw):
            return seam._wrap(seam._orig_open, path, mode, *a, **kw)

        def np_open(path, mode="r", *a, **kw):
            return seam._wrap(seam._orig_np, path, mode, *a, **kw)

        builtins.open = open_
        ds._file_openers._file_openers[None] = np_open
        return self

    def __exit__(self, *exc):
        builtins.open = self._orig_open
        self._ds._file_openers._file_openers[None] = self._orig_np
        return False
