"""Common core of the deterministic simulator.

One integer (VERIF_SEED) decides everything: `batch_seed(base, i)` derives the
per-run seed, the engine's `generate(prop, seed, tier)` turns it into an explicit,
JSON-serialisable *scenario* (universe + operation list + fault plan), and
`execute(prop, scenario)` runs the real virocon code under the seams of
`sim.seams` and returns a `RunResult`.  Replay = execute() on a stored scenario.

Nothing in here reads a clock or draws random numbers on behalf of a run; wall
clock is only used for batch budgets and evidence.
"""

import hashlib
import json
import math
import os
import random
import signal
import sys
import time
import traceback

import numpy as np

VERIF = os.path.dirname(os.path.dirname(os.path.abspath(__file__)))
REPO = os.environ.get("VERIF_REPO", "/repo")


# --------------------------------------------------------------------------
# hashing / digests (never touch any RNG)
# --------------------------------------------------------------------------


def h64(*parts):
    """Stable 63-bit integer hash of the repr of parts (independent of PYTHONHASHSEED)."""
    m = hashlib.sha256()
    for p in parts:
        m.update(repr(p).encode())
        m.update(b"\x00")
    return int.from_bytes(m.digest()[:8], "big") >> 1


def batch_seed(base, i):
    return (int(base) << 20) + int(i)


def _feed(m, obj):
    if obj is None:
        m.update(b"N")
    elif isinstance(obj, (bool, np.bool_)):
        m.update(b"B1" if obj else b"B0")
    elif isinstance(obj, (int, np.integer)):
        m.update(b"I" + str(int(obj)).encode())
    elif isinstance(obj, (float, np.floating)):
        f = float(obj)
        m.update(b"F" + (b"nan" if f != f else f.hex().encode()))
    elif isinstance(obj, complex):
        m.update(b"C" + repr(obj).encode())
    elif isinstance(obj, str):
        m.update(b"S" + obj.encode("utf-8", "surrogatepass"))
    elif isinstance(obj, bytes):
        m.update(b"Y" + obj)
    elif isinstance(obj, np.ndarray):
        if obj.dtype == object:
            m.update(b"O" + str(obj.shape).encode())
            for x in obj.ravel().tolist():
                _feed(m, x)
        else:
            a = np.ascontiguousarray(obj)
            m.update(b"A" + str(a.dtype).encode() + str(a.shape).encode())
            m.update(a.tobytes())
    elif isinstance(obj, (list, tuple)):
        m.update(b"L" + str(len(obj)).encode())
        for x in obj:
            _feed(m, x)
    elif isinstance(obj, dict):
        m.update(b"D" + str(len(obj)).encode())
        for k in sorted(obj, key=lambda z: repr(z)):
            _feed(m, str(k))
            _feed(m, obj[k])
    else:
        m.update(b"R" + type(obj).__name__.encode())
        # objects are digested by class name only; engines pass plain data


def digest(obj):
    m = hashlib.sha256()
    _feed(m, obj)
    return m.hexdigest()[:16]


def jsonable(obj):
    """Best-effort conversion to JSON-serialisable plain data (for reports only)."""
    if isinstance(obj, (str, bool)) or obj is None:
        return obj
    if isinstance(obj, (int, np.integer)):
        return int(obj)
    if isinstance(obj, (float, np.floating)):
        f = float(obj)
        if f != f or f in (math.inf, -math.inf):
            return repr(f)
        return f
    if isinstance(obj, np.ndarray):
        if obj.size > 12:
            return {"ndarray": list(obj.shape), "digest": digest(obj)}
        return [jsonable(x) for x in obj.tolist()]
    if isinstance(obj, (list, tuple)):
        return [jsonable(x) for x in obj]
    if isinstance(obj, dict):
        return {str(k): jsonable(v) for k, v in obj.items()}
    return repr(obj)[:200]


# --------------------------------------------------------------------------
# run records
# --------------------------------------------------------------------------


class Inconclusive(Exception):
    """The workload (not the library) made this run undecidable."""


class RunTimeout(Exception):
    pass


class Run:
    """Mutable record an engine fills while executing one scenario."""

    def __init__(self, prop, scenario):
        self.prop = prop
        self.scenario = scenario
        self.events = []  # (idx, op, args_digest, outcome_digest, faults_fired)
        self.violations = []  # dicts: invariant, step, signature, detail
        self.stats = {}  # counters: faults fired, probes reached, comparisons ...
        self.inconclusive = None
        self.steps = 0
        self.signature = ""  # distinctness signature of the run
        self.nontrivial = True

    # -- counters -----------------------------------------------------------
    def count(self, key, n=1):
        self.stats[key] = self.stats.get(key, 0) + n

    # -- events ---------------------------------------------------------------
    def event(self, op, args=None, outcome=None, faults=None):
        self.events.append(
            (len(self.events), op, digest(args), digest(outcome), tuple(faults or ()))
        )
        self.steps += 1

    # -- verdicts -----------------------------------------------------------
    def violate(self, invariant, site, detail, step=None):
        """Record a violation.  `invariant`+`site` form the signature (what
        known_findings.json matches on); `detail` is free-form data."""
        site = str(site).replace(" ", "-")
        self.violations.append(
            {
                "invariant": invariant,
                "site": site,
                "signature": f"{self.prop}/{invariant}/{site}",
                "step": len(self.events) if step is None else step,
                "detail": jsonable(detail),
            }
        )

    def log_digest(self):
        return digest([list(e) for e in self.events])

    def result(self):
        verdict = "pass"
        if self.violations:
            verdict = "violation"
        elif self.inconclusive:
            verdict = "inconclusive"
        return {
            "verdict": verdict,
            "violations": self.violations,
            "inconclusive": self.inconclusive,
            "digest": self.log_digest(),
            "stats": self.stats,
            "steps": self.steps,
            "signature": self.signature,
            "nontrivial": bool(self.nontrivial) and verdict != "inconclusive",
        }


# --------------------------------------------------------------------------
# executing one scenario with a wall-clock guard
# --------------------------------------------------------------------------


def _alarm_handler(signum, frame):
    raise RunTimeout()


def execute_guarded(engine, prop, scenario, cap_s=120):
    """Run engine.execute under a per-run wall-clock cap.

    Returns the result dict.  A timeout makes the run inconclusive (never a
    pass); any other exception escaping the engine is a harness error."""
    old = signal.signal(signal.SIGALRM, _alarm_handler)
    signal.setitimer(signal.ITIMER_REAL, cap_s)
    t0 = time.time()
    try:
        run = engine.execute(prop, scenario)
        res = run.result()
    except RunTimeout:
        res = {
            "verdict": "inconclusive",
            "violations": [],
            "inconclusive": "wall-clock cap",
            "digest": "timeout",
            "stats": {"timeouts": 1},
            "steps": 0,
            "signature": "timeout",
            "nontrivial": False,
        }
    except Exception:
        res = {
            "verdict": "harness_error",
            "violations": [],
            "inconclusive": None,
            "digest": "error",
            "stats": {},
            "steps": 0,
            "signature": "error",
            "nontrivial": False,
            "traceback": traceback.format_exc(),
        }
    finally:
        signal.setitimer(signal.ITIMER_REAL, 0)
        signal.signal(signal.SIGALRM, old)
    res["wall_s"] = time.time() - t0
    return res


def run_seed(engine, prop, seed, tier, cap_s=120):
    scenario = engine.generate(prop, seed, tier)
    res = execute_guarded(engine, prop, scenario, cap_s)
    res["seed"] = seed
    if res["verdict"] in ("violation", "harness_error"):
        res["scenario"] = scenario
    elif res.get("keep_scenario"):
        res["scenario"] = scenario
    return res, scenario


# --------------------------------------------------------------------------
# helpers for engines
# --------------------------------------------------------------------------


class SeedStream:
    """All random choices of a generator come from here (random.Random(seed))."""

    def __init__(self, seed):
        self.seed = int(seed)
        self.R = random.Random(self.seed)

    def chance(self, p):
        return self.R.random() < p

    def pick(self, seq):
        seq = list(seq)
        return seq[self.R.randrange(len(seq))]

    def wpick(self, pairs):
        """pairs: [(item, weight), ...]"""
        tot = sum(w for _, w in pairs)
        x = self.R.random() * tot
        for it, w in pairs:
            x -= w
            if x <= 0:
                return it
        return pairs[-1][0]

    def uni(self, a, b):
        return a + (b - a) * self.R.random()

    def loguni(self, a, b):
        return math.exp(self.uni(math.log(a), math.log(b)))

    def int(self, a, b):
        return self.R.randint(a, b)

    def perm(self, n):
        p = list(range(n))
        self.R.shuffle(p)
        return p

    def sub(self, *tag):
        return h64(self.seed, *tag) % (2**32)


def r6(x):
    """Round a float to 6 significant digits (keeps scenario files readable and
    makes the scenario the single source of truth for argument values)."""
    if x == 0 or not math.isfinite(x):
        return x
    return float(f"{x:.6g}")


def run_forked(fn, *args):
    """fn(*args) in a forked child; the parent's process state is untouched by it and the
    child starts from exactly the parent's current state.  Result is returned by pickle."""
    import pickle

    r, w = os.pipe()
    pid = os.fork()
    if pid == 0:
        code = 0
        try:
            os.close(r)
            data = pickle.dumps(("ok", fn(*args)))
        except BaseException as e:  # noqa: BLE001
            data = pickle.dumps(("err", traceback.format_exc(), type(e).__name__, str(e)))
            code = 3
        try:
            with os.fdopen(w, "wb") as f:
                f.write(data)
        finally:
            os._exit(code)
    os.close(w)
    with os.fdopen(r, "rb") as f:
        data = f.read()
    os.waitpid(pid, 0)
    if not data:
        raise RuntimeError("forked child died without a result")
    out = pickle.loads(data)
    if out[0] == "ok":
        return out[1]
    if out[2] == "RuntimeError":
        raise RuntimeError(out[3])
    raise RuntimeError("forked child failed:\n" + out[1])
