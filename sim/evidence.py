"""Evidence writer: everything in here is measured on the run that just finished."""

import json
import os

from sim import core

LEVELS = {"C18": "fault_enumeration"}


def write(prop, tier, base_seed, engine, cfg, results, wall, det, known_hits, unlisted, replay_paths):
    stats = {}
    for r in results:
        for k, v in r["stats"].items():
            stats[k] = stats.get(k, 0) + v
    n = len(results)
    verdicts = {}
    for r in results:
        verdicts[r["verdict"]] = verdicts.get(r["verdict"], 0) + 1
    inconcl = {}
    for r in results:
        if r["verdict"] == "inconclusive":
            key = str(r["inconclusive"])[:80]
            inconcl[key] = inconcl.get(key, 0) + 1
    distinct = len({r["signature"] for r in results if r["nontrivial"]})
    steps = sum(r["steps"] for r in results)
    samples = []
    for r in results:
        if r.get("sample") is not None:
            samples.append({"seed": r["seed"], "verdict": r["verdict"], "case": r["sample"]})
        if len(samples) >= 4:
            break
    if not samples:
        # regenerate a few scenarios (pure function of the seed)
        for r in results[:3]:
            samples.append({"seed": r["seed"], "verdict": r["verdict"], "case": engine.generate(prop, r["seed"], tier)})
    faults = {k: v for k, v in sorted(stats.items()) if k.startswith("fault:")}
    probes = {k: v for k, v in sorted(stats.items()) if k.startswith("probe:")}
    other = {k: v for k, v in sorted(stats.items()) if not k.startswith(("fault:", "probe:"))}
    comparisons = stats.get("dkw_comparisons", 0)
    desc = engine.describe(prop)
    ev = {
        "property_id": prop,
        "tier": tier,
        "seed": base_seed,
        "level": LEVELS.get(prop, "exploration"),
        "coverage": {
            "evaluations": n,
            "distinct_nontrivial": distinct,
            "rule": desc["rule"],
            "samples": core.jsonable(samples) if False else samples,
            "exhaustive": bool(desc.get("exhaustive", False)),
            "steps_executed": steps,
            "verdicts": verdicts,
            "inconclusive_reasons": inconcl,
            "fault_firings": faults,
            "probes_reached": probes,
            "probes_never_reached": [p for p in desc.get("probes", []) if stats.get("probe:" + p, 0) == 0],
            "counters": other,
            "runs_per_hour": round(n / wall * 3600) if wall > 0 else 0,
            "seeds": f"batch_seed(base={base_seed}, i) = (base<<20)+i for i in 0..{n - 1}",
            "simulated_time": "n/a - virocon reads no clock; logical steps are counted instead",
            "statistical_comparisons": comparisons,
            "false_alarm_bound_this_run": comparisons * 1e-12,
            "determinism_pairs_compared": det["pairs"],
            "determinism_mismatches": det["mismatches"],
            "components_real": desc["real"],
            "components_stubbed": desc["stub"],
            "known_findings_matched": {s: n_ for s, (k, n_) in known_hits.items()},
            "unlisted_violation_signatures": unlisted,
            "replays": replay_paths,
        },
        "assumptions": desc["assumptions"],
        "wall_s": round(wall, 2),
        "violations": len(unlisted),
    }
    os.makedirs(os.path.join(core.VERIF, "evidence"), exist_ok=True)
    path = os.path.join(core.VERIF, "evidence", f"{prop}.json")
    with open(path, "w") as f:
        json.dump(ev, f, indent=1, default=str)
    try:
        import jsonschema

        with open("/root/.vp/EVIDENCE.schema.json") as f:
            schema = json.load(f)
        with open(path) as f:
            jsonschema.validate(json.load(f), schema)
    except ImportError:
        pass
    except FileNotFoundError:
        pass
