"""Model zoo shared by the io / rng / hist engines: fresh descriptions, seeded data.

Data come from the shipped one-year benchmark files, read with numpy (not with
virocon's own reader) and sub-sampled by a seeded generator, or from the
harness's own inverse-cdf sampler."""

import math
import os

import numpy as np

from sim import core
from engines.fit_c14 import make_func

_DATA_CACHE = {}


def _load(name):
    if name not in _DATA_CACHE:
        path = os.path.join(os.environ.get("VERIF_DATA_REPO", "/repo"), "datasets", f"ec-benchmark_dataset_{name}_1year.txt")
        arr = np.genfromtxt(path, delimiter=";", skip_header=1, usecols=(1, 2), dtype=float)
        _DATA_CACHE[name] = arr[np.all(np.isfinite(arr), axis=1)]
    return _DATA_CACHE[name]


G = 9.81


def own_hs_tz_to_hs_s(d):
    hs, tz = d[:, 0], d[:, 1]
    return np.column_stack([hs, 2 * math.pi * hs / (G * tz * tz)])


PREDEFINED = {
    # kind: (getter name, dataset letter(s), column transform)
    "dnvgl_hs_tz": ("get_DNVGL_Hs_Tz", "ABC", None),
    "omae_hs_tz": ("get_OMAE2020_Hs_Tz", "ABC", None),
    "dnvgl_hs_u": ("get_DNVGL_Hs_U", "D", "swap"),
    "omae_v_hs": ("get_OMAE2020_V_Hs", "D", None),
    "windmeier": ("get_Windmeier_EW_Hs_S", "ABC", "hs_s"),
    "nonzero": ("get_Nonzero_EW_Hs_S", "ABC", "hs_s"),
}


def dataset_for(kind, letter, n, seed):
    """seeded sub-sample (without replacement, original order kept) in the model's variable order"""
    _, letters, tr = PREDEFINED[kind]
    arr = _load(letter if letter in letters else letters[0])
    rng = np.random.default_rng(seed)
    n = min(n, len(arr))
    idx = np.sort(rng.choice(len(arr), size=n, replace=False))
    d = arr[idx].copy()
    if tr == "swap":
        d = d[:, ::-1].copy()
    elif tr == "hs_s":
        d = own_hs_tz_to_hs_s(d)
    return d


def predefined(kind):
    """fresh call of the predefined getter -> (dist_descriptions, fit_descriptions, semantics, transformations|None)"""
    import virocon

    out = getattr(virocon, PREDEFINED[kind][0])()
    if len(out) == 4:
        return out
    return out[0], out[1], out[2], None


def build_predefined(kind, letter="A", n=1500, seed=0, fit=True, transformed=False, precision_factor=0.2, random_state=None):
    from virocon import GlobalHierarchicalModel, TransformedModel

    desc, fit_desc, sem, tr = predefined(kind)
    model = GlobalHierarchicalModel(desc)
    data = dataset_for(kind, letter, n, seed)
    if fit:
        model.fit(data, fit_desc)
    out = model
    if transformed and tr is not None:
        out = TransformedModel(model, tr["transform"], tr["inverse"], tr["jacobian"], precision_factor=precision_factor, random_state=random_state)
    return out, data, sem


# --------------------------------------------------------------------------
# directly parameterised models (no fit needed)
# --------------------------------------------------------------------------


def direct_model(spec):
    """spec: {"dims":[{"family","params":{..},"cond_on":None|j,"deps":{param:{"shape","p":[..]}},"fixed":{..}}]}
    -> GlobalHierarchicalModel whose parameters are what the spec says."""
    from virocon import DependenceFunction, GlobalHierarchicalModel
    from engines.fit_c11 import fam_class

    descs = []
    for d in spec["dims"]:
        cls = fam_class(d["family"])
        if d.get("cond_on") is None:
            dist = cls(**d["params"])
            descs.append({"distribution": dist})
        else:
            dist = cls(**{"f_" + k: v for k, v in d.get("fixed", {}).items()})
            pars = {p: DependenceFunction(make_func(v["shape"], v["p"])) for p, v in d["deps"].items()}
            descs.append({"distribution": dist, "conditional_on": d["cond_on"], "parameters": pars})
    return GlobalHierarchicalModel(descs)


def sea_state_spec(S=None):
    """Hs ~ Weibull, Tz|Hs ~ LogNormal (DNVGL-like numbers, optionally jittered by a SeedStream)"""

    def j(v, r=0.15):
        return core.r6(v * (1 + (S.uni(-r, r) if S else 0.0)))

    return {
        "dims": [
            {"family": "Weibull", "params": {"alpha": j(2.776), "beta": j(1.471), "gamma": j(0.8888)}, "cond_on": None},
            {
                "family": "LogNormal",
                "cond_on": 0,
                "deps": {"mu": {"shape": "power3", "p": [j(0.1), j(1.489), j(0.1901)]}, "sigma": {"shape": "exp3", "p": [j(0.04), j(0.1748), j(-0.2243, 0.05)]}},
            },
        ]
    }


def three_dim_spec(S=None, structure=(None, 0, 1)):
    def j(v, r=0.15):
        return core.r6(v * (1 + (S.uni(-r, r) if S else 0.0)))

    dims = [
        {"family": "Weibull", "params": {"alpha": j(2.5), "beta": j(1.6), "gamma": 0.0}, "cond_on": None},
    ]
    if structure[1] is None:
        dims.append({"family": "LogNormal", "params": {"mu": j(1.4), "sigma": j(0.3)}, "cond_on": None})
    else:
        dims.append({"family": "LogNormal", "cond_on": 0, "deps": {"mu": {"shape": "power3", "p": [j(0.9), j(0.35), j(0.8)]}, "sigma": {"shape": "exp3", "p": [j(0.05), j(0.25), j(-0.3, 0.05)]}}})
    dims.append({"family": "Normal", "cond_on": structure[2], "deps": {"mu": {"shape": "poly1", "p": [j(4.0), j(0.8)]}, "sigma": {"shape": "poly1", "p": [j(0.8), j(0.05)]}}})
    return {"dims": dims}
