"""Property id -> engine module."""

import importlib

ENGINES = {
    "C14": "engines.fit_c14",
    "C09": "engines.fit_c09",
    "C11": "engines.fit_c11",
    "C18": "engines.spec_c18",
    "C20": "engines.io_c20",
    "C07": "engines.rng_c07",
    "C16": "engines.rng_c16",
    "C19": "engines.hist_c19",
}


def engine_for(prop):
    return importlib.import_module(ENGINES[prop])
