"""Entry point: ./check <ID> --tier quick|thorough [--replay FILE]

Exit codes: 0 = property held on everything explored (known findings are
listed, not alarmed); 1 = at least one unlisted violation, each printed as
`VIOLATION property=<id> replay=<path>`; 2 = harness defect (determinism
breach, engine exception, wall-clock kill) -- never a verdict.
"""

import argparse
import faulthandler
import json
import multiprocessing as mp
import os
import subprocess
import sys
import tempfile
import time

VERIF = os.path.dirname(os.path.dirname(os.path.abspath(__file__)))
PY = "/venv/bin/python"


def _reexec_if_needed():
    """Every check runs in an interpreter with a pinned environment."""
    want = {
        "PYTHONHASHSEED": os.environ.get("VERIF_HASHSEED", "0"),
        "OMP_NUM_THREADS": os.environ.get("VERIF_OMP", "1"),
        "OPENBLAS_NUM_THREADS": os.environ.get("VERIF_OMP", "1"),
        "MKL_NUM_THREADS": os.environ.get("VERIF_OMP", "1"),
        "PYTHONDONTWRITEBYTECODE": "1",
        "MPLBACKEND": "Agg",
    }
    repo = os.environ.get("VERIF_REPO", "/repo")
    pp = f"{repo}:{VERIF}"
    if os.environ.get("VERIF_CHILD") == "1":
        return
    env = dict(os.environ)
    env.update(want)
    env["PYTHONPATH"] = pp
    env["VERIF_CHILD"] = "1"
    env["VERIF_REPO"] = repo
    if "MPLCONFIGDIR" not in env:
        env["MPLCONFIGDIR"] = tempfile.mkdtemp(prefix="verif-mpl-")
        env["VERIF_RM_MPL"] = env["MPLCONFIGDIR"]
    os.execve(PY, [PY, "-W", "ignore::SyntaxWarning", os.path.abspath(__file__)] + sys.argv[1:], env)


_reexec_if_needed()
sys.path.insert(0, VERIF)

import numpy as np  # noqa: E402

from sim import core  # noqa: E402
from sim import registry  # noqa: E402


def _cleanup_mpl():
    d = os.environ.get("VERIF_RM_MPL")
    if d and os.path.isdir(d):
        import shutil

        shutil.rmtree(d, ignore_errors=True)


# --------------------------------------------------------------------------
# worker side
# --------------------------------------------------------------------------


def _isolated(fn, args):
    """Run fn(args) in a forked child of this (pristine) worker process and return its
    result.  Every chunk / candidate therefore starts from the same process state: whatever
    a run leaves behind in module globals, class attributes or caches of the library under
    test cannot reach a later chunk, and a chunk is exactly reproducible as a *sequence*."""
    import pickle

    r, w = os.pipe()
    pid = os.fork()
    if pid == 0:
        code = 0
        try:
            os.close(r)
            data = pickle.dumps(fn(args))
            with os.fdopen(w, "wb") as f:
                f.write(data)
        except BaseException:  # noqa: BLE001
            import traceback

            try:
                with os.fdopen(w, "wb") as f:
                    f.write(pickle.dumps({"__child_error__": traceback.format_exc()}))
            except Exception:
                pass
            code = 3
        finally:
            os._exit(code)
    os.close(w)
    with os.fdopen(r, "rb") as f:
        data = f.read()
    os.waitpid(pid, 0)
    if not data:
        raise RuntimeError("isolated child died without a result")
    out = pickle.loads(data)
    if isinstance(out, dict) and "__child_error__" in out:
        raise RuntimeError("isolated child failed:\n" + out["__child_error__"])
    return out


def _chunk_body(args):
    prop, tier, seeds, cap_s = args
    engine = registry.engine_for(prop)
    out = []
    for s in seeds:
        res, scenario = core.run_seed(engine, prop, s, tier, cap_s)
        out.append(res)
    return out


def _chunk(args):
    return _isolated(_chunk_body, args)


def _exec_sequence_body(args):
    """execute scenarios one after the other in one process; result of the last one"""
    prop, scenarios, cap_s = args
    engine = registry.engine_for(prop)
    res = None
    for sc in scenarios:
        res = core.execute_guarded(engine, prop, sc, cap_s)
    return res


def _exec_scenario_job(args):
    prop, scenario, cap_s = args
    return _isolated(_exec_sequence_body, (prop, [scenario], cap_s))


def _exec_sequence_job(args):
    return _isolated(_exec_sequence_body, args)


# --------------------------------------------------------------------------
# known findings
# --------------------------------------------------------------------------


def load_known():
    path = os.path.join(VERIF, "known_findings.json")
    if not os.path.exists(path):
        return []
    with open(path) as f:
        return json.load(f).get("findings", [])


def match_known(known, prop, signature):
    for k in known:
        if k.get("status") != "known" or k.get("property") != prop:
            continue
        if signature == k.get("signature") or signature in k.get("signatures", ()):
            return k
    return None


# --------------------------------------------------------------------------
# minimisation
# --------------------------------------------------------------------------


def minimise(pool, prop, scenario, target_sig, cap_s, budget):
    engine = registry.engine_for(prop)
    cur = scenario
    tried = 0
    improved = True
    while improved and tried < budget:
        improved = False
        cands = list(engine.shrink_candidates(prop, cur))
        # evaluate candidates in parallel batches, keep the first that still fails
        i = 0
        while i < len(cands) and tried < budget:
            batch = cands[i : i + 16]
            i += len(batch)
            tried += len(batch)
            results = list(pool.map(_exec_scenario_job, [(prop, c, cap_s) for c in batch]))
            hit = None
            for c, r in zip(batch, results):
                if any(v["signature"] == target_sig for v in r["violations"]):
                    hit = c
                    break
            if hit is not None:
                cur = hit
                improved = True
                break
    return cur, tried


# --------------------------------------------------------------------------
# main
# --------------------------------------------------------------------------


def replay_file(prop, path):
    with open(path) as f:
        rep = json.load(f)
    engine = registry.engine_for(prop)
    for sc in rep.get("preceding_scenarios", []):
        # scenarios executed earlier in the same process (state left behind by them is part of the history)
        core.execute_guarded(engine, prop, sc, 600)
    res = core.execute_guarded(engine, prop, rep["scenario"], 600)
    want = rep.get("violation", {}).get("signature")
    sigs = [v["signature"] for v in res["violations"]]
    print(f"replay: verdict={res['verdict']} digest={res['digest']} signatures={sorted(set(sigs))}")
    for v in res["violations"][:5]:
        print("  ", json.dumps(v)[:600])
    if res["verdict"] == "harness_error":
        print(res.get("traceback", ""))
        return 2
    if want is None:
        ok = bool(sigs)
    else:
        ok = want in sigs
    if ok:
        known = match_known(load_known(), prop, want or sigs[0])
        if known:
            print(f"KNOWN-FINDING: property={prop} {known['what']}")
        print(f"VIOLATION property={prop} replay={path}")
        return 1
    print("replay did not reproduce the recorded violation")
    return 0


def fresh_digests(prop, tier, seeds, hashseed, omp):
    """Run the given seeds in a fresh interpreter under another environment and
    return {seed: digest}."""
    env = dict(os.environ)
    env.pop("VERIF_CHILD", None)
    env["VERIF_HASHSEED"] = str(hashseed)
    env["VERIF_OMP"] = str(omp)
    cmd = [PY, os.path.abspath(__file__), prop, "--tier", tier, "--digests", ",".join(map(str, seeds))]
    p = subprocess.run(cmd, env=env, capture_output=True, text=True, timeout=3600)
    out = {}
    for line in p.stdout.splitlines():
        if line.startswith("DIGEST "):
            _, s, d, v = line.split()
            out[int(s)] = (d, v)
    if p.returncode != 0:
        sys.stderr.write(p.stdout[-2000:] + p.stderr[-2000:])
    return out


def main():
    ap = argparse.ArgumentParser()
    ap.add_argument("prop")
    ap.add_argument("--tier", default=os.environ.get("VERIF_TIER", "quick"))
    ap.add_argument("--replay")
    ap.add_argument("--digests", help="internal: print digests of these seeds")
    ap.add_argument("--runs", type=int, default=None)
    ap.add_argument("--budget", type=float, default=None)
    ap.add_argument("--workers", type=int, default=int(os.environ.get("VERIF_WORKERS", "16")))
    ap.add_argument("--no-selftest", action="store_true")
    ap.add_argument("--no-evidence", action="store_true")
    args = ap.parse_args()
    prop = args.prop
    tier = args.tier if args.tier in ("quick", "thorough") else "quick"
    base_seed = int(os.environ.get("VERIF_SEED", "0"))

    import virocon

    vpath = os.path.realpath(virocon.__file__)
    repo = os.path.realpath(os.environ.get("VERIF_REPO", "/repo"))
    if not vpath.startswith(repo + os.sep):
        print(f"harness error: virocon imported from {vpath}, expected under {repo}")
        return 2

    engine = registry.engine_for(prop)
    cfg = engine.tier_config(prop, tier)
    cap_s = cfg.get("cap_s", 120)

    if args.replay:
        return replay_file(prop, args.replay)

    if args.digests:
        for s in map(int, args.digests.split(",")):
            res, _ = core.run_seed(engine, prop, s, tier, cap_s)
            print("DIGEST", s, res["digest"], res["verdict"])
        return 0

    faulthandler.enable()
    t0 = time.time()
    print(f"VERIF_SEED={base_seed} property={prop} tier={tier} engine={engine.NAME}")
    n_runs = args.runs or int(os.environ.get("VERIF_RUNS", "0")) or cfg.get("runs")
    budget = args.budget or float(os.environ.get("VERIF_BUDGET_S", "0")) or cfg.get("budget_s")
    chunk = cfg.get("chunk", 8)
    hard_kill = (budget or 0) + cfg.get("grace_s", 900)
    faulthandler.dump_traceback_later(hard_kill, exit=True)

    from concurrent.futures import ProcessPoolExecutor, as_completed

    ctx = mp.get_context("fork")
    results = []
    with ProcessPoolExecutor(max_workers=args.workers, mp_context=ctx) as pool:
        futs = {}
        next_i = 0

        def submit_more(k):
            nonlocal next_i
            for _ in range(k):
                if n_runs is not None and next_i >= n_runs:
                    return
                hi = next_i + chunk if n_runs is None else min(next_i + chunk, n_runs)
                seeds = [core.batch_seed(base_seed, i) for i in range(next_i, hi)]
                next_i = hi
                futs[pool.submit(_chunk, (prop, tier, seeds, cap_s))] = seeds

        submit_more(args.workers * 2)
        while futs:
            done = next(as_completed(list(futs)))
            futs.pop(done)
            results.extend(done.result())
            over = budget is not None and (time.time() - t0) > budget
            if not over:
                submit_more(1)
        results.sort(key=lambda r: r["seed"])

        # ---- harness errors are not verdicts ----------------------------------
        herr = [r for r in results if r["verdict"] == "harness_error"]
        if herr:
            print(f"harness error in {len(herr)} run(s); first (seed {herr[0]['seed']}):")
            print(herr[0].get("traceback", ""))
            return 2

        # ---- violations ---------------------------------------------------------
        known = load_known()
        by_sig = {}
        for r in results:
            for v in r["violations"]:
                by_sig.setdefault(v["signature"], []).append((r, v))
        unlisted = []
        known_hits = {}
        os.makedirs(os.path.join(VERIF, "replays"), exist_ok=True)
        exit_code = 0
        for sig in sorted(by_sig):
            k = match_known(known, prop, sig)
            if k:
                known_hits[sig] = (k, len(by_sig[sig]))
                continue
            unlisted.append(sig)
        max_report = cfg.get("max_report", 6)
        replay_paths = {}
        for sig in unlisted[:max_report]:
            r, v = min(by_sig[sig], key=lambda rv: len(json.dumps(rv[0]["scenario"])))
            preceding = []
            alone = pool.submit(_exec_scenario_job, (prop, r["scenario"], cap_s)).result()
            if not any(x["signature"] == sig for x in alone["violations"]):
                # The violation needs state left behind by runs executed earlier in the same
                # process (its chunk).  Reproduce it as a sequence and drop what is not needed.
                idx = (r["seed"] & ((1 << 20) - 1))
                start = (idx // chunk) * chunk
                preceding = [engine.generate(prop, core.batch_seed(base_seed, i), tier) for i in range(start, idx)]
                keep = list(preceding)
                for i in range(len(preceding)):
                    cand = [p_ for p_ in keep if p_ is not preceding[i]]
                    rr = pool.submit(_exec_sequence_job, (prop, cand + [r["scenario"]], cap_s)).result()
                    if any(x["signature"] == sig for x in rr["violations"]):
                        keep = cand
                preceding = keep
                scen, tried = r["scenario"], len(preceding)
                vmin = [v]
            else:
                scen, tried = minimise(pool, prop, r["scenario"], sig, cap_s, cfg.get("shrink_budget", 160))
                res_min = pool.submit(_exec_scenario_job, (prop, scen, cap_s)).result()
                vmin = [x for x in res_min["violations"] if x["signature"] == sig]
                if not vmin:  # should not happen; fall back to the original
                    scen, vmin = r["scenario"], [v]
            path = os.path.join(VERIF, "replays", f"{prop}-{core.digest(sig)}-{r['seed']}.json")
            with open(path, "w") as f:
                json.dump(
                    {
                        "property": prop,
                        "engine": engine.NAME,
                        "seed": r["seed"],
                        "base_seed": base_seed,
                        "tier": tier,
                        "env": {"PYTHONHASHSEED": os.environ.get("PYTHONHASHSEED"), "OMP_NUM_THREADS": os.environ.get("OMP_NUM_THREADS")},
                        "preceding_scenarios": preceding,
                        "scenario": scen,
                        "violation": vmin[0],
                        "shrink_executions": tried,
                        "occurrences_in_batch": len(by_sig[sig]),
                    },
                    f,
                    indent=1,
                )
            replay_paths[sig] = path

    unconfirmed = []
    # ---- confirm replays in fresh interpreters (twice) -------------------------
    for sig, path in replay_paths.items():
        oks = []
        for _ in range(2):
            env = dict(os.environ)
            env.pop("VERIF_CHILD", None)
            p = subprocess.run([PY, os.path.abspath(__file__), prop, "--replay", path], env=env, capture_output=True, text=True, timeout=1800)
            oks.append(p.returncode == 1 and f"VIOLATION property={prop}" in p.stdout)
        if all(oks):
            print(f"VIOLATION property={prop} replay={path}")
            print(f"  signature={sig} occurrences={len(by_sig[sig])}")
            exit_code = 1
        else:
            print(f"unconfirmed: violation {sig} was observed in the batch but its replay file did not reproduce it in a fresh interpreter ({oks}); file {path}")
            unconfirmed.append(sig)
    if unconfirmed and exit_code == 0:
        # something was observed that the simulator cannot reproduce: not a verdict
        exit_code = 2
    if len(unlisted) > max_report:
        print(f"({len(unlisted) - max_report} further distinct violation signatures not minimised: {unlisted[max_report:]})")
    # every listed finding is replayed from its stored scenario on the tree under test: the line is
    # printed while (and only while) the tree still shows it, whether or not the batch reached it
    for k in known:
        if k.get("status") != "known" or k.get("property") != prop:
            continue
        hits = {sig: n for sig, (kk, n) in known_hits.items() if kk is k}
        still = bool(hits)
        if not still and k.get("replay"):
            with open(os.path.join(VERIF, k["replay"])) as f:
                rep = json.load(f)
            rr = _exec_sequence_job((prop, rep.get("preceding_scenarios", []) + [rep["scenario"]], cap_s))
            still = any(match_known([k], prop, x["signature"]) for x in rr["violations"])
        if still:
            print(f"KNOWN-FINDING: property={prop} {k['what']} [occurrences in this batch: {sum(hits.values())} under {len(hits)} signature(s)]")
        else:
            print(f"note: the listed finding '{k.get('id', k.get('signature'))}' did not occur in this batch and its stored scenario no longer shows it")

    # ---- determinism mini self-test ------------------------------------------------
    det = {"pairs": 0, "mismatches": 0}
    if not args.no_selftest:
        nd = cfg.get("det_seeds", 6)
        sample = [r for r in results if r["digest"] not in ("timeout", "error")][:nd]
        if sample:
            got = fresh_digests(prop, tier, [r["seed"] for r in sample], hashseed=cfg.get("det_hashseed", 4242), omp=1)
            for r in sample:
                det["pairs"] += 1
                if r["seed"] not in got or got[r["seed"]][0] != r["digest"]:
                    det["mismatches"] += 1
                    print(f"determinism breach: seed {r['seed']} digest {r['digest']} vs fresh interpreter {got.get(r['seed'])}")
        if det["mismatches"] and exit_code == 0:
            exit_code = 2  # a confirmed, replayable violation is not overridden by this

    wall = time.time() - t0
    if not args.no_evidence:
        from sim import evidence

        evidence.write(prop, tier, base_seed, engine, cfg, results, wall, det, known_hits, unlisted, replay_paths)
    nv = sum(1 for r in results if r["verdict"] == "violation")
    ni = sum(1 for r in results if r["verdict"] == "inconclusive")
    print(f"runs={len(results)} pass={len(results) - nv - ni} violation_runs={nv} inconclusive={ni} wall={wall:.1f}s exit={exit_code}")
    faulthandler.cancel_dump_traceback_later()
    return exit_code


if __name__ == "__main__":
    try:
        rc = main()
    finally:
        _cleanup_mpl()
    sys.exit(rc)
