#!/venv/bin/python
"""Regenerates MANIFEST.json from the table below (keeps it valid by construction)."""
import json, os
HERE = os.path.dirname(os.path.abspath(__file__))

CLAIMED = {
    "C14": dict(engine="fit", level="exploration", design="DESIGN.md section 3 / C14",
        technique="deterministic simulation: seeded search over fit-call orders, declaration orders and re-fit histories of a DependenceFunction DAG with injected optimiser failures; closed-form least-squares reference model",
        text="Seeded exploration of schedules (order of fit calls / declaration, re-fit rounds) and optimiser-failure faults over DAGs of real DependenceFunctions; every end-of-round state is compared with a closed-form (bounded) least-squares reference, local optimality, bounds and constraints. Evidence over the runs explored, not a proof.",
        note="Trusts numpy.linalg.lstsq / scipy lsq_linear as reference solvers and the harness's own evaluation of the user's shape functions; nonlinear shapes are judged on bounds and local optimality only. One known finding is listed in known_findings.json (constrained fits whose data or solution lie >= 1e4 times the start parameters away lose the optimum); violations of that call site and input class print KNOWN-FINDING and do not fail the check, everything else does."),
    "C18": dict(engine="spec", level="fault_enumeration", design="DESIGN.md section 3 / C18",
        technique="deterministic simulation with fault injection: every malformation class x position x carrier family x dependence structure injected into an otherwise valid staged pipeline (build, construct, fit, evaluate, contour); fault-free twin as reference",
        text="Complete enumeration of single malformations (class x position x carrier family x conditional_on structure of 1-4 dimensions) plus seeded pairs, each injected into a staged pipeline whose fault-free twin completes; a violation is a stage that returns normally although it computed with the malformed item.",
        note="Trusts the harness's table of the latest admissible stage per malformation class (description faults: the model constructor; others: first stage that computes with the item); any exception type counts as rejection."),
    "C11": dict(engine="fit", level="exploration", design="DESIGN.md section 3 / C11",
        technique="deterministic simulation: seeded histories construct -> (fit | fit with estimator-rejected data | evaluate)* on stateful distribution objects and ConditionalDistributions, (family x fixed-subset) grid walked systematically; scipy frozen distributions as reference model",
        text="Seeded exploration of construct/fit/failed-fit/evaluate histories over every family and every non-empty proper subset of fixed parameters, with invariants (fixed value retained, evaluation equals the family's law at the current parameters, fit succeeds for supported subsets, conditional evaluation uses the fixed value at every conditioning value, and - for the families with a smooth bounded likelihood - the free parameters are the maximum-likelihood estimates given the fixed ones) checked after every step.",
        note="Trusts scipy.stats frozen distributions as the independent statement of each family's law; numerical estimator failures are inconclusive, keyword-translation failures are violations."),
    "C09": dict(engine="fit", level="exploration", design="DESIGN.md section 3 / C09",
        technique="deterministic simulation: seeded fit histories (first fit, re-fit, re-fit after injected estimator/slicer/optimiser failure) of a GlobalHierarchicalModel and of a twin receiving one step's rows in another order; stand-alone fits as reference model",
        text="Seeded exploration of model structures, slicers, per-dimension fit options and fit histories with row permutations; after every successful fit each interval's population is checked against the reported boundaries, each per-interval estimate against a stand-alone fit of a fresh template on exactly that population with that dimension's options, each dependence function against a stand-alone fit on the (reference value, estimate) pairs, and the twin for row-order invariance.",
        note="Trusts the harness's own sampler (scipy ppf) for data; rows within 1e-9 of an interval edge may fall on either side (edge conventions belong to C10); nonlinear dependence shapes are compared at 1e-3."),
    "C20": dict(engine="io", level="exploration", design="DESIGN.md section 3 / C20",
        technique="deterministic simulation with fault injection at the file seam (builtins.open + numpy's opener table): ENOSPC/EIO at seeded write/flush/close points, failing open, short reads, EIO on read; matplotlib Agg Axes as recording sink with Axes-reuse history",
        text="Seeded sequences of save / load / plot operations with injected write and read faults; every written file is parsed back and compared with the contour row by row, every loaded frame with the text the harness wrote, every drawn artist with the contour / sample / design conditions / model values; a save that returns after a fault must have written the complete file and the next save must recover.",
        note="Trusts matplotlib's artist getters and the harness's own parser/formatter; isodensity lines are judged by bracketing the level with the model's pdf around each drawn vertex."),
    "C07": dict(engine="rng", level="exploration", design="DESIGN.md section 3 / C07",
        technique="deterministic simulation: the simulator owns every randomness source (random_state None/int/shared Generators, NumPy's global legacy RNG re-seeded between steps as an injected fault) and replays each draw schedule twice; DKW bounds at 1e-12 against the model's own (conditional) cdf via the Rosenblatt image",
        text="Seeded schedules of draws over 1-3 live sampling objects (all families; 2-D/3-D models of every dependence structure) with interleaved global-RNG skews; every sample of >= 2000 rows is judged by distribution-free DKW bounds (overall and within quantile bins of every earlier coordinate), shapes and supports are checked, and seeded draws must be bit-identical in a second execution of the schedule with identically seeded Generators and different global-RNG state.",
        note="Statistical verdicts have error probability <= 1e-12 per comparison (count in evidence); the reference law is the object's own cdf, as the property states."),
    "C16": dict(engine="rng", level="exploration", design="DESIGN.md section 3 / C16",
        technique="deterministic simulation: the simulator owns the model's random_state, NumPy's global RNG (pinned / skewed as injected fault) and the cache history of a TransformedModel; exact push-forward and conditional laws from an independent reference model, DKW and tail-coverage bounds at 1e-12",
        text="Seeded operation sequences on TransformedModels (transform round trips, Jacobian, push-forward pdf, sampling, Monte-Carlo conditional sample/cdf/quantile from bulk to extreme conditioning values, IFORM contours repeated under global-RNG skew, cache history around a re-fit), each judged against the harness's own exact change-of-variables reference with distribution-free bounds.",
        note="Reference law computed with the harness's own closed forms from the public parameter values; the sampler's documented design (domain (0,100), density threshold 1e-7) is respected by adding the designed-away mass to every tolerance."),
    "C19": dict(engine="hist", level="exploration", design="DESIGN.md section 3 / C19",
        technique="deterministic simulation: seeded interleavings of evaluate / contour / plot / save / slice / fit operations (with injected optimiser failures and global-RNG skews) over several live models in one process; bit-exact object-graph snapshots around every step and projection equivalence against each model's operations run alone",
        text="Seeded interleavings over 2-4 live models built from fresh predefined-getter calls (same getter possibly twice) with snapshots of every model and every caller array around every step, each evaluation executed twice under the same pinned global-RNG state, fits checked for isolation and template integrity, every slot's history re-run alone in a fresh universe (projection equivalence), no caller array kept by a model, and the interpreter-wide state (warning filters, numpy error state) unchanged after every operation.",
        note="The snapshot walks __dict__ graphs (floats by hex, arrays by digest); private attributes that appear after creation are treated as caches; unseeded operations may depend on the global RNG state only, which the simulator pins per step."),
}

NA = {
 "C01": "IFORM/ISORM on a GlobalHierarchicalModel is a deterministic closed-form map of (model, alpha, n_points); no schedule, clock, I/O, fault or carried state for a simulator to own.",
 "C02": "The highest-density region is a pure function of (model, alpha, limits, deltas); the Monte-Carlo default limits only choose which grid the same pure statement is about.",
 "C03": "The direct-sampling polygon is a pure function of (sample, alpha, deg_step); its one random clause (n = int(100/alpha) points drawn) is peripheral.",
 "C04": "AND/OR contour points are a function of (sample, alpha, step, allowed_error) up to an internal Monte-Carlo scale factor absorbed by the tolerance clause; nothing stateful or faultable is stated.",
 "C05": "cdf/icdf/pdf formulas and their mutual consistency are pure functions of (parameters, x).",
 "C06": "Factorisation, normalisation and marginal identities are quadrature identities of pure functions.",
 "C08": "'Conditional = template at the dependence values' is a pure evaluation identity; its sampling clause is exercised (not claimed) by C07's run.",
 "C10": "Interval slicing is a pure function of (data vector, options) and the stated quantifier is exhaustive enumeration of a bounded lattice, i.e. model checking, which this technique family excludes.",
 "C12": "Likelihood monotonicity and scale equivariance concern a single optimiser call as a function of (start values, data); no sequence, fault or randomness.",
 "C13": "The least-squares estimator is a closed-form / 1-D search function of (sample, weights, delta); pure.",
 "C15": "Boundary-cell extraction and point sorting are deterministic functions of the grid / point set; pure.",
 "C17": "Design conditions and polyline intersection are pure geometry on the given polygon.",
}

def main():
    checks = []
    for pid, c in sorted(CLAIMED.items()):
        checks.append({
            "property_id": pid,
            "quick_cmd": f"./check {pid} --tier quick",
            "thorough_cmd": f"./check {pid} --tier thorough",
            "evidence_file": f"/verif/evidence/{pid}.json",
            "replay_cmd_template": f"./check {pid} --replay {{path}}",
            "engine": c["engine"],
            "level_claimed": {"category": c["level"], "text": c["text"], "design_ref": c["design"]},
            "level_note": c["note"],
            "technique": c["technique"],
        })
    engines = {}
    for pid, c in CLAIMED.items():
        engines.setdefault(c["engine"], []).append(pid)
    man = {
        "version": 1,
        "setup_cmd": "/venv/bin/python -W ignore -c \"import numpy, scipy, pandas, matplotlib, sklearn, networkx; import sys; sys.path.insert(0, '/repo'); import virocon; print('virocon', virocon.__version__, virocon.__file__)\"",
        "hooks": {
            "guard": "VIROCON_VERIF",
            "enable": "no hooks: every seam used (random_state parameters, NumPy's global RNG, builtins.open, numpy's opener table, virocon._fitting.curve_fit/minimize module attributes, matplotlib Agg) already exists; checks import /repo's working tree via PYTHONPATH=/repo",
            "baseline_off_cmd": "cd /repo && /venv/bin/python -m pytest -ra -q -p no:cacheprovider --timeout=900 --continue-on-collection-errors",
            "source_commits": [],
            "add_only": True,
        },
        "engines": [{"name": n, "path": f"/verif/engines", "serves_properties": sorted(p), "kind_free_text": "deterministic simulation with fault injection (seeded scenario generator + executor + oracles + ddmin)"} for n, p in sorted(engines.items())],
        "checks": checks,
        "notes": "Technique family: deterministic simulation with fault injection. One integer (VERIF_SEED) decides every scenario; replay files hold the explicit operation list. See DESIGN.md. known_findings.json lists recorded/fixed genuine defects.",
        "not_applicable": [{"property_id": k, "reason": v} for k, v in sorted(NA.items())],
    }
    with open(os.path.join(HERE, "MANIFEST.json"), "w") as f:
        json.dump(man, f, indent=1)

if __name__ == "__main__":
    main()
