"""C20 - exported, plotted and loaded data are exactly the computed / stored values.

System under simulation: save_contour_coordinates / read_ec_benchmark_dataset
behind the file seam (builtins.open + numpy's opener table -> FaultyFile), and
the plot functions drawing into real matplotlib (Agg) Axes that are inspected
afterwards.  Faults: F5 write faults (ENOSPC after b bytes, EIO on the k-th
write / flush / close, failing open), F6 read faults (short reads, EIO after b
characters), F7 history (reused Axes, other live figures, repeated saves).
"""

import copy
import datetime
import errno
import math
import os
import shutil
import tempfile

import numpy as np

from sim import core, models, seams

NAME = "io"


def tier_config(prop, tier):
    if tier == "quick":
        return {"runs": 900, "chunk": 10, "cap_s": 240, "det_seeds": 6, "shrink_budget": 100}
    return {"budget_s": 1200, "chunk": 10, "cap_s": 300, "det_seeds": 32, "shrink_budget": 160, "grace_s": 1200}


CONTOURS_2D = ["IFORM", "ISORM", "HDC", "DirectSampling", "And", "Or"]
SEM_STRINGS = ["Significant wave height", "Zero-up-crossing period", "Wind speed", "Höhe", "T_z [s]", "a;b", "100 % load", "x (y)", "名前", "H_s, 1/3", " leading", "tab\there"]
UNIT_STRINGS = ["m", "s", "m s$^{-1}$", "-", "%", "°", "m/s", "arb. unit", "", "m/s²", "μm", "‰"]


def _gen_contour(S, three_d_ok=False):
    kind = S.wpick([("IFORM", 4), ("ISORM", 3), ("HDC", 2), ("DirectSampling", 2), ("And", 1.5), ("Or", 1.5)])
    c = {"kind": kind, "alpha": core.r6(S.loguni(0.002, 0.2)), "dim": 2}
    if kind in ("IFORM", "ISORM"):
        c["n_points"] = S.pick([3, 4, 7, 20, 60])
        if three_d_ok and S.chance(0.3):
            c["dim"] = 3
    elif kind == "HDC":
        c["delta"] = S.pick([0.4, 0.5, 0.25])
        c["alpha"] = core.r6(S.uni(0.05, 0.3))
    else:
        c["n"] = S.pick([2000, 5000])
        c["sseed"] = S.sub("sample")
        c["deg_step"] = S.pick([5, 10, 3])
        c["alpha"] = core.r6(S.uni(0.02, 0.2))
    return c


def _gen_semantics(S, dim):
    if S.chance(0.3):
        return None
    return {"names": [S.pick(SEM_STRINGS) for _ in range(dim)], "symbols": [S.pick(["H_s", "T_z", "U", "V", "X_1"]) for _ in range(dim)], "units": [S.pick(UNIT_STRINGS) for _ in range(dim)]}


def _gen_write_fault(S):
    k = S.wpick([("enospc", 4), ("eio_write", 3), ("eio_flush", 1), ("eio_close", 2), ("open", 1.5)])
    if k == "enospc":
        return {"kind": k, "after": S.pick([0, 1, 10, 25, 40, 80, 200, 1000])}
    if k == "eio_write":
        return {"kind": k, "at": S.pick([0, 1, 2, 3, 5, 10])}
    if k == "open":
        return {"kind": k, "exc": S.pick(["PermissionError", "IsADirectoryError", "ENOSPC"])}
    return {"kind": k}


def generate(prop, seed, tier):
    S = core.SeedStream(seed)
    ops = []
    n_ops = S.int(1, 4)
    need_fitted = False
    for k in range(n_ops):
        kind = S.wpick([("save", 5), ("load", 3), ("plot2d", 5), ("plot_dep", 1.2), ("plot_hist", 1), ("plot_iso", 1), ("plot_mq", 0.8), ("plot_dep3", 0.8), ("plot_iso_indep", 0.8), ("load_default", 0.25), ("plot_dep_fixed_first", 0.6)])
        if kind == "load_default":
            ops.append({"op": "load_default"})
            continue
        if kind == "plot_iso_indep":
            ops.append({"op": "plot_iso_indep", "swap": S.chance(0.4), "levels": S.pick([None, [0.001, 0.01, 0.05]]), "n_grid": S.pick([120, 250]), "sseed": S.sub("isi", k), "semantics": None})
            continue
        if kind == "plot_dep_fixed_first":
            ops.append({"op": "plot_dep_fixed_first", "family": S.pick(["LogNormal", "Normal"]), "dseed": S.sub("pdf", k), "n": S.pick([600, 1200]), "swap": False, "levels": None, "semantics": None})
            continue
        if kind == "plot_dep3":
            # a directly parameterised 3-D model with two conditional distributions (one panel per dependence function)
            ops.append({"op": "plot_dep3", "structure": S.pick([[None, 0, 1], [None, 0, 0]]), "own_axes": S.chance(0.4), "semantics": None})
            continue
        if kind == "save":
            c = _gen_contour(S, three_d_ok=True)
            op = {"op": "save", "contour": c, "path": S.pick(["contour", "contour.txt", "out.csv", "my.contour", "dir.d/c", "noext.", "x.dat", "Ünï"]), "subdir": S.wpick([(None, 6), ("sub", 1)]), "semantics": _gen_semantics(S, c["dim"]), "fault": None, "again": S.chance(0.5)}
            if S.chance(0.45):
                op["fault"] = _gen_write_fault(S)
            # history: the same path is written again with a shorter contour (no stale tail may survive)
            op["then_shorter"] = S.chance(0.35)
            ops.append(op)
        elif kind == "load":
            op = {"op": "load", "rows": S.pick([1, 2, 3, 10, 100, 1000, 10000] if tier == "thorough" else [1, 2, 3, 10, 100, 1000]), "cols": S.int(1, 3), "fseed": S.sub("file", k), "prec": S.pick([4, 2, 6]), "final_newline": S.chance(0.8), "crlf": S.chance(0.2), "sep_style": S.pick(["; ", "; ", ";", ";  "]), "stamp_order": S.wpick([("ascending", 4), ("descending", 1), ("two_campaigns", 1), ("repeated", 1)]), "exp_notation": S.chance(0.15), "blank_tail": S.chance(0.15), "fault": None,
                  # history: the caller changes the returned frame in place, then reads the same file again
                  "reload": S.wpick([(None, 3), ("scale", 1), ("drop", 1), ("rename", 1), ("plain", 1)])}
            if S.chance(0.5):
                op["fault"] = S.wpick([({"kind": "short_read", "n": S.pick([1, 7, 64, 1000])}, 3), ({"kind": "eio_read", "after": S.pick([0, 10, 100, 1000, 5000])}, 3)])
            elif S.chance(0.3):
                op["relative"] = True
                op["reload"] = None
            ops.append(op)
        elif kind == "plot2d":
            c = _gen_contour(S)
            ops.append({"op": "plot2d", "contour": c, "sample": S.chance(0.5), "dc": S.wpick([(None, 3), (True, 2), ("array", 2), (False, 0.5)]), "swap": S.chance(0.4), "ax": S.wpick([("new", 3), ("reuse", 2)]), "semantics": _gen_semantics(S, 2), "sseed": S.sub("ps", k), "dc_container": S.pick(["ndarray", "ndarray", "list", "tuple", "dataframe"]), "sample_container": S.pick(["ndarray", "ndarray", "list"])})
        else:
            need_fitted = True
            ops.append({"op": kind, "swap": S.chance(0.4), "ax": "new", "semantics": _gen_semantics(S, 2) if S.chance(0.5) else None, "levels": S.pick([None, [0.001, 0.01, 0.1]]), "n_grid": S.pick([120, 250])})
    uni = {"jitter": S.sub("jit"), "fitted_kind": S.pick(["dnvgl_hs_tz", "omae_hs_tz", "dnvgl_hs_u", "omae_v_hs"]) if need_fitted else None, "letter": S.pick(["A", "B", "C"]), "n": S.pick([1200, 2500]), "dseed": S.sub("d")}
    return {"engine": NAME, "property": prop, "seed": seed, "universe": uni, "ops": ops}


# --------------------------------------------------------------------------
# building contours
# --------------------------------------------------------------------------


def make_contour(model2, model3, c):
    import virocon as v

    m = model3 if c.get("dim") == 3 else model2
    k = c["kind"]
    if k == "IFORM":
        return v.IFORMContour(m, c["alpha"], n_points=c["n_points"])
    if k == "ISORM":
        return v.ISORMContour(m, c["alpha"], n_points=c["n_points"])
    if k == "HDC":
        return v.HighestDensityContour(m, c["alpha"], limits=[(0, 14), (0, 16)], deltas=c["delta"])
    sample = m.draw_sample(c["n"], random_state=int(c["sseed"]))
    seams.pin_global(c["sseed"])
    if k == "DirectSampling":
        return v.DirectSamplingContour(m, c["alpha"], deg_step=c["deg_step"], sample=sample)
    if k == "And":
        return v.AndContour(m, c["alpha"], deg_step=c["deg_step"], sample=sample, allowed_error=0.05)
    return v.OrContour(m, c["alpha"], deg_step=c["deg_step"], sample=sample, allowed_error=0.05)


def coords_array(contour):
    c = contour.coordinates
    if isinstance(c, list):
        return None
    try:
        a = np.array([[float(np.asarray(v).reshape(-1)[0]) for v in row] for row in c], dtype=float)
    except Exception:
        return None
    return a


# --------------------------------------------------------------------------
# save
# --------------------------------------------------------------------------


def expected_header(sem, dim):
    if sem is None:
        names = [f"Variable {d + 1}" for d in range(dim)]
        units = ["arb. unit"] * dim
    else:
        names, units = sem["names"], sem["units"]
    return ";".join(f"{names[d]} ({units[d]})" for d in range(dim))


def check_saved_file(path, coords, header):
    """None if the file is the complete, correct export, else a dict describing the defect."""
    try:
        with open(path, "r", encoding=None) as f:  # the real open (seam not installed while checking)
            text = f.read()
    except UnicodeDecodeError as e:
        # a text export is read with the platform's text encoding, the one a plain open(path) uses
        return {"what": "not readable as text", "error": repr(e)[:160]}
    lines = text.split("\n")
    if lines and lines[-1] == "":
        lines = lines[:-1]
    if not lines:
        return {"what": "empty file"}
    if lines[0] != header:
        return {"what": "header", "got": lines[0][:120], "want": header[:120]}
    rows = lines[1:]
    if len(rows) != len(coords):
        return {"what": "row count", "got": len(rows), "want": len(coords)}
    for i, (ln, xy) in enumerate(zip(rows, coords)):
        fields = ln.split(";")
        if len(fields) != len(xy):
            return {"what": "field count", "row": i, "line": ln[:80]}
        for fld, val in zip(fields, xy):
            try:
                got = float(fld)
            except ValueError:
                return {"what": "unparsable field", "row": i, "field": fld[:40]}
            if not abs(got - val) <= 0.5e-6 * (1 + 2**-40) + 1e-15 * abs(val):
                return {"what": "value", "row": i, "got": got, "want": float(val)}
            if "." not in fld or len(fld.split(".")[1]) != 6:
                return {"what": "not written with 6 decimals", "row": i, "field": fld[:40]}
    return None


def install_write_fault(fs, fault):
    fs.plans.pop("w", None)
    fs.open_fault = None
    if fault is None:
        return
    k = fault["kind"]
    if k == "enospc":
        fs.plans["w"] = {"enospc_after": fault["after"]}
    elif k == "eio_write":
        fs.plans["w"] = {"eio_write_at": fault["at"]}
    elif k == "eio_flush":
        fs.plans["w"] = {"eio_flush": True}
    elif k == "eio_close":
        fs.plans["w"] = {"eio_close": True}
    elif k == "open":
        fs.open_fault = {"PermissionError": PermissionError(errno.EACCES, "Permission denied (injected)"), "IsADirectoryError": IsADirectoryError(errno.EISDIR, "Is a directory (injected)"), "ENOSPC": OSError(errno.ENOSPC, "No space left on device (injected)")}[fault["exc"]]


def do_save(run, scen, op, si, root, model2, model3):
    from virocon import save_contour_coordinates

    contour = make_contour(model2, model3, op["contour"])
    coords = coords_array(contour)
    if coords is None:
        run.count("save_skipped_multi_part_contour")
        return
    dim = coords.shape[1]
    base = os.path.join(root, f"s{si}")
    os.makedirs(base, exist_ok=True)
    rel = op["path"]
    target_dir = base
    if op["subdir"]:
        target_dir = os.path.join(base, op["subdir"])
        os.makedirs(target_dir, exist_ok=True)
    if "/" in rel:
        os.makedirs(os.path.join(target_dir, os.path.dirname(rel)), exist_ok=True)
    path = os.path.join(target_dir, rel)
    expect_path = path + (".txt" if os.path.splitext(path)[1] == "" else "")
    header = expected_header(op["semantics"], dim)
    site = op["contour"]["kind"]

    def listing():
        out = []
        for r, _, files in os.walk(base):
            out += [os.path.relpath(os.path.join(r, f), base) for f in files]
        return sorted(out)

    for attempt, fault in enumerate([op["fault"]] + ([None] if (op["fault"] is not None or op["again"]) else [])):
        before = listing()
        exc = None
        with seams.FileSeam(root) as fs:
            install_write_fault(fs, fault)
            try:
                save_contour_coordinates(contour, path, copy.deepcopy(op["semantics"]))
            except Exception as e:  # noqa: BLE001
                exc = e
            fired = {k: v for k, v in fs.stats.items() if k.startswith("fired_")}
        for k, v in fired.items():
            run.count("fault:F5-" + k[6:], v)
        run.event("save", [site, rel, fault], [type(exc).__name__ if exc else None, sorted(fired)], sorted(fired))
        after = listing()
        if fault is not None and fired:
            if exc is not None:
                if not isinstance(exc, OSError):
                    run.violate("save-fault-wrong-exception", f"{fault['kind']}", {"exc": repr(exc)[:200], "fault": fault, "step": si})
                    return
                continue  # raised: fine, whatever is on disk
            # returned normally although a write fault fired: the file must be complete
            defect = check_saved_file(expect_path, coords, header) if os.path.exists(expect_path) else {"what": "no file"}
            if defect is not None:
                run.violate("save-returned-with-incomplete-file", f"{fault['kind']}", {"fault": fault, "defect": defect, "step": si})
                return
            continue
        if exc is not None:
            run.violate("save-raises", f"{site}/{type(exc).__name__}", {"exc": repr(exc)[:300], "path": rel, "step": si, "attempt": attempt})
            return
        new = sorted(set(after) - set(before)) if attempt == 0 else sorted(set(after) - set(before))
        want_rel = os.path.relpath(expect_path, base)
        if want_rel not in after:
            run.violate("save-file-name", "txt-extension-rule", {"path": rel, "expected": want_rel, "files": after, "step": si})
            return
        if [f for f in new if f != want_rel]:
            run.violate("save-extra-files", "extra", {"new_files": new, "expected": want_rel, "step": si})
            return
        defect = check_saved_file(expect_path, coords, header)
        run.count("save_files_checked")
        if defect is not None:
            run.violate("save-content", defect["what"], {"defect": defect, "contour": op["contour"], "path": rel, "step": si, "recovery": attempt > 0})
            return
        if attempt > 0:
            run.count("probe:save-after-fault-recovers" if op["fault"] else "probe:save-overwrites")
    if op.get("then_shorter") and not run.violations and len(coords) > 3:
        class _Short:  # a contour is anything with .coordinates
            coordinates = coords[: max(2, len(coords) // 3)].copy()

        exc = None
        try:
            save_contour_coordinates(_Short(), path, copy.deepcopy(op["semantics"]))
        except Exception as e:  # noqa: BLE001
            exc = e
        run.event("save-shorter", [site, rel], type(exc).__name__ if exc else None)
        if exc is not None:
            run.violate("save-raises", f"{site}/{type(exc).__name__}/overwrite", {"exc": repr(exc)[:300], "step": si})
            return
        defect = check_saved_file(expect_path, _Short.coordinates, header)
        run.count("probe:save-overwrites-with-shorter-contour")
        if defect is not None:
            run.violate("save-content", defect["what"] + "/overwrite-with-shorter-contour", {"defect": defect, "path": rel, "step": si})


# --------------------------------------------------------------------------
# load
# --------------------------------------------------------------------------


def do_load_default(run, si):
    """read_ec_benchmark_dataset() without a path: the shipped data set A, every row, in order"""
    import virocon
    from virocon import read_ec_benchmark_dataset

    path = os.path.join(os.path.dirname(os.path.dirname(os.path.abspath(virocon.__file__))), "datasets", "ec-benchmark_dataset_A.txt")
    with open(path) as f:
        lines = [ln for ln in f.read().split("\n") if ln.strip()]
    exc = None
    try:
        df = read_ec_benchmark_dataset()
    except Exception as e:  # noqa: BLE001
        exc = e
    run.event("load_default", None, type(exc).__name__ if exc else list(df.shape))
    if exc is not None:
        run.violate("load-raises", type(exc).__name__ + "/default-dataset", {"exc": repr(exc)[:300], "step": si})
        return
    run.count("probe:default-dataset-read")
    if len(df) != len(lines) - 1:
        run.violate("load-shape", "rows/default-dataset", {"got": len(df), "want": len(lines) - 1, "step": si})
        return
    for r_ in (0, 1, len(df) // 2, len(df) - 1):
        parts = [x.strip() for x in lines[r_ + 1].split(";")]
        want = [float(x) for x in parts[1:]]
        got = [float(v) for v in df.iloc[r_].values]
        stamp = datetime.datetime.strptime(parts[0], "%Y-%m-%d-%H")
        if got != want or df.index[r_].to_pydatetime() != stamp:
            run.violate("load-values", "values/default-dataset", {"row": r_, "got": got, "want": want, "index": str(df.index[r_]), "stamp": parts[0], "step": si})
            return


def do_load(run, scen, op, si, root):
    from virocon import read_ec_benchmark_dataset

    rng = np.random.default_rng(op["fseed"])
    names = ["significant wave height (m)", "zero-up-crossing period (s)", "wind speed (m/s)"][: op["cols"]]
    start = datetime.datetime(1990 + int(rng.integers(0, 30)), int(rng.integers(1, 13)), int(rng.integers(1, 28)), int(rng.integers(0, 24)))
    sep = op.get("sep_style", "; ")
    lines = ["time (YYYY-MM-DD-HH)" + sep + sep.join(names)]
    vals = []
    stamps = []
    so = op.get("stamp_order", "ascending")
    nrows = op["rows"]
    for r in range(nrows):
        if so == "descending":
            hr = nrows - 1 - r
        elif so == "two_campaigns":
            hr = r + 5000 if r < nrows // 2 else r - nrows // 2  # the later campaign stands first in the file
        elif so == "repeated":
            hr = r // 2
        else:
            hr = r
        t = start + datetime.timedelta(hours=hr)
        row = rng.uniform(0.0, 30.0, size=op["cols"])
        txt = [(f"{v:.{op['prec']}e}" if op.get("exp_notation") else f"{v:.{op['prec']}f}") for v in row]
        vals.append([float(s) for s in txt])
        stamps.append(t)
        lines.append(t.strftime("%Y-%m-%d-%H") + sep + sep.join(txt))
    path = os.path.join(root, f"l{si}.txt")
    if op.get("relative"):
        # the user's own copy under a relative name that also exists in the package's checkout, read
        # from his project directory
        os.makedirs(os.path.join(root, f"proj{si}", "datasets"), exist_ok=True)
        path = os.path.join(root, f"proj{si}", "datasets", "ec-benchmark_dataset_A_1year.txt")
    nl = "\r\n" if op.get("crlf") else "\n"
    with open(path, "w", newline="") as f:
        f.write(nl.join(lines) + (nl if op["final_newline"] else "") + (nl + nl if op.get("blank_tail") and op["final_newline"] else ""))
    fault = op["fault"]
    exc = None
    df = None
    with seams.FileSeam(root) as fs:
        if fault is not None:
            fs.plans["r"] = {"short_read": fault["n"]} if fault["kind"] == "short_read" else {"eio_read_after": fault["after"]}
        try:
            import pathlib

            if op.get("relative"):
                cwd0 = os.getcwd()
                os.chdir(os.path.join(root, f"proj{si}"))
                try:
                    df = read_ec_benchmark_dataset(os.path.join("datasets", "ec-benchmark_dataset_A_1year.txt"))
                finally:
                    os.chdir(cwd0)
                run.count("probe:relative-path-from-another-working-directory")
            else:
                df = read_ec_benchmark_dataset(pathlib.Path(path) if (op["fseed"] % 4 == 0 and fault is None) else path)
        except Exception as e:  # noqa: BLE001
            exc = e
        fired = {k: v for k, v in fs.stats.items() if k.startswith("fired_")}
        opened = list(fs.opened)
    for k, v in fired.items():
        run.count("fault:F6-" + k[6:], 1)
    run.event("load", [op["rows"], op["cols"], fault], [type(exc).__name__ if exc else None, None if df is None else list(df.shape)], sorted(fired))
    if not opened:
        run.count("probe:reader-bypassed-file-seam")
    if fault is not None and fault["kind"] == "eio_read" and "fired_eio_read" in fired:
        if exc is None:
            run.violate("load-returned-despite-read-error", "eio_read", {"fault": fault, "shape": list(df.shape), "rows_written": op["rows"], "step": si})
        return
    if exc is not None:
        run.violate("load-raises", type(exc).__name__, {"exc": repr(exc)[:300], "rows": op["rows"], "fault": fault, "step": si})
        return
    if not _check_frame(run, op, si, df, names, vals, stamps, fault):
        return
    mode = op.get("reload")
    if mode:
        # F7 history fault: what the caller does with the first frame must not change the next read
        if mode == "scale":
            df.iloc[:, 0] *= 2.0
        elif mode == "drop":
            df.drop(df.index[:1], inplace=True)
        elif mode == "rename":
            df.rename(columns={df.columns[0]: "renamed"}, inplace=True)
        try:
            df2 = read_ec_benchmark_dataset(path)
        except Exception as e:  # noqa: BLE001
            run.violate("load-raises", type(e).__name__ + "/second-read", {"exc": repr(e)[:300], "step": si})
            return
        run.count("probe:file-read-again-after-caller-changed-frame")
        run.event("reload", mode, list(df2.shape))
        _check_frame(run, op, si, df2, names, vals, stamps, {"kind": "reload-after-" + mode})


def _check_frame(run, op, si, df, names, vals, stamps, fault):
    run.count("load_frames_checked")
    if list(df.shape) != [op["rows"], op["cols"]]:
        run.violate("load-shape", "rows" if df.shape[0] != op["rows"] else "cols", {"got": list(df.shape), "want": [op["rows"], op["cols"]], "fault": fault, "step": si})
        return False
    if [str(c) for c in df.columns] != names:
        run.violate("load-columns", "names", {"got": [str(c) for c in df.columns], "want": names, "fault": fault, "step": si})
        return False
    got = np.asarray(df.values, dtype=float)
    if not np.array_equal(got, np.array(vals, dtype=float).reshape(op["rows"], op["cols"])):
        bad = int(np.argmax(np.any(got != np.array(vals), axis=1)))
        run.violate("load-values", "values", {"row": bad, "got": got[bad].tolist(), "want": vals[bad], "fault": fault, "step": si})
        return False
    idx = [ts.to_pydatetime() for ts in df.index]
    if idx != stamps:
        bad = next(i for i, (a, b) in enumerate(zip(idx, stamps)) if a != b)
        run.violate("load-index", "timestamps", {"row": bad, "got": str(idx[bad]), "want": str(stamps[bad]), "fault": fault, "step": si})
        return False
    return True


# --------------------------------------------------------------------------
# plotting
# --------------------------------------------------------------------------


def _artists(ax):
    return (list(ax.lines), list(ax.collections), list(ax.patches), list(ax.images))


def _new(ax, before):
    now = _artists(ax)
    return [[a for a in n if all(a is not b for b in bf)] for n, bf in zip(now, before)]


def _offsets(coll):
    return np.asarray(coll.get_offsets(), dtype=float)


def do_plot2d(run, scen, op, si, model2, state):
    import matplotlib.pyplot as plt
    from virocon import calculate_design_conditions, plot_2D_contour

    contour = make_contour(model2, None, op["contour"])
    coords = coords_array(contour)
    site = op["contour"]["kind"]
    if coords is None:
        run.count("plot_skipped_multi_part_contour")
        return
    xi, yi = (1, 0) if op["swap"] else (0, 1)
    sample = None
    if op["sample"]:
        sample = np.random.default_rng(op["sseed"]).uniform(0.1, 12.0, size=(50, 2))
    dc = op["dc"]
    dc_arg = dc
    dc_expect = None
    if dc == "array":
        dc_arg = np.random.default_rng(op["sseed"] + 1).uniform(1.0, 9.0, size=(6, 2))
        dc_expect = dc_arg.copy()
        # the docstring says array-like: ndarray, list of lists, tuple of tuples, DataFrame
        cont = op.get("dc_container", "ndarray")
        if cont == "list":
            dc_arg = dc_arg.tolist()
        elif cont == "tuple":
            dc_arg = tuple(tuple(r) for r in dc_arg.tolist())
        elif cont == "dataframe":
            import pandas as pd

            dc_arg = pd.DataFrame(dc_arg, columns=["x", "y"])
    elif dc is True:
        try:
            dc_expect = np.asarray(calculate_design_conditions(contour, swap_axis=op["swap"]), dtype=float)
        except Exception:
            run.count("plot_dc_true_reference_failed")
            dc_arg = None
            dc = None
    # a bystander Axes that must stay untouched
    by_fig, by_ax = plt.subplots()
    by_ax.plot([0, 1], [0, 1])
    by_before = _artists(by_ax)
    ax_in = None
    if op["ax"] == "reuse":
        if state.get("ax") is None:
            state["fig"], state["ax"] = plt.subplots()
        ax_in = state["ax"]
    before = _artists(ax_in) if ax_in is not None else ([], [], [], [])
    figs_before = set(plt.get_fignums())
    sample_copy = None if sample is None else sample.copy()
    sample_arg = sample.tolist() if (sample is not None and op.get("sample_container") == "list") else sample
    exc = None
    try:
        ret = plot_2D_contour(contour, sample=sample_arg, design_conditions=dc_arg, semantics=copy.deepcopy(op["semantics"]), swap_axis=op["swap"], ax=ax_in)
    except Exception as e:  # noqa: BLE001
        exc = e
    run.event("plot2d", [site, op["sample"], str(op["dc"]), op["swap"], op["ax"]], [type(exc).__name__ if exc else None])
    if exc is not None:
        run.violate("plot2d-raises", ("OrContour" if site == "Or" else f"design_conditions={op['dc']}") + f"/{type(exc).__name__}", {"exc": repr(exc)[:300], "op": {k: op.get(k) for k in ("sample", "dc", "swap", "ax", "dc_container", "sample_container")}, "step": si})
        return
    ax = ret[0] if isinstance(ret, tuple) else ret
    if ax_in is not None and ax is not ax_in:
        run.violate("plot2d-axes", "supplied-axes-not-used", {"step": si})
        return
    if ax_in is None:
        new_figs = set(plt.get_fignums()) - figs_before
        if len(new_figs) != 1 or ax is by_ax or (state.get("ax") is not None and ax is state["ax"]):
            run.violate("plot2d-axes", "no-new-figure", {"new_figures": len(new_figs), "step": si})
            return
    lines, colls, patches, images = _new(ax, before)
    run.count("plot2d_checked")
    if len(lines) != 1:
        run.violate("plot2d-line", "line-count", {"new_lines": len(lines), "step": si})
        return
    xy = np.column_stack([np.asarray(lines[0].get_xdata(), dtype=float), np.asarray(lines[0].get_ydata(), dtype=float)])
    want = np.vstack([coords[:, [xi, yi]], coords[:1, [xi, yi]]])
    if xy.shape != want.shape or not np.array_equal(xy, want):
        what = "closing-point" if xy.shape[0] != want.shape[0] else ("axes-exchange" if xy.shape == want.shape and np.array_equal(xy, want[:, ::-1]) else "points")
        run.violate("plot2d-line", what, {"n_drawn": int(xy.shape[0]), "n_expected": int(want.shape[0]), "first_drawn": xy[:2].tolist(), "first_expected": want[:2].tolist(), "swap": op["swap"], "step": si})
        return
    exp_colls = []
    if dc_expect is not None and dc not in (None, False):
        exp_colls.append(("design-conditions", dc_expect))
    if sample is not None:
        exp_colls.append(("sample", sample_copy[:, [xi, yi]]))
    if len(colls) != len(exp_colls):
        run.violate("plot2d-scatter", "collection-count", {"drawn": len(colls), "expected": [n for n, _ in exp_colls], "step": si})
        return
    remaining = list(colls)
    for name, arr in exp_colls:
        hit = None
        for c in remaining:
            off = _offsets(c)
            if off.shape == arr.shape and np.array_equal(off, arr):
                hit = c
                break
        if hit is None:
            run.violate("plot2d-scatter", name, {"expected_first": arr[:2].tolist(), "drawn_first": [_offsets(c)[:2].tolist() for c in remaining], "swap": op["swap"], "step": si})
            return
        remaining = [c for c in remaining if c is not hit]
    if sample is not None and not np.array_equal(sample, sample_copy):
        run.violate("plot2d-purity", "sample-mutated", {"step": si})
        return
    after = coords_array(contour)
    if after is None or after.shape != coords.shape or not np.array_equal(after, coords):
        run.violate("plot2d-purity", "contour-coordinates-changed", {"swap": op["swap"], "first_before": coords[:2].tolist(), "first_after": None if after is None else after[:2].tolist(), "step": si})
        return
    if any(len(n) for n in _new(by_ax, by_before)):
        run.violate("plot2d-axes", "drew-on-other-axes", {"step": si})
        return
    plt.close(by_fig)
    if ax_in is None:
        plt.close(ax.figure)


def do_plot_dep3(run, scen, op, si):
    import matplotlib.pyplot as plt
    import virocon as v

    S = core.SeedStream(scen["universe"]["jitter"])
    model = models.direct_model(models.three_dim_spec(S, tuple(op["structure"])))
    n_panels = sum(len(d.conditional_parameters) for d in model.distributions if hasattr(d, "conditional_parameters"))
    axes_in = None
    if op["own_axes"]:
        axes_in = [plt.subplots()[1] for _ in range(n_panels)]
    exc = None
    try:
        axes = v.plot_dependence_functions(model, axes=axes_in)
    except Exception as e:  # noqa: BLE001
        exc = e
    run.event("plot_dep3", [op["structure"], op["own_axes"]], type(exc).__name__ if exc else None)
    try:
        if exc is not None:
            run.violate("plot_dep-raises", type(exc).__name__, {"exc": repr(exc)[:300], "structure": op["structure"], "step": si})
            return
        run.count("plot_dep3_checked")
        if len(axes) != n_panels:
            run.violate("plot_dep-artists", "panel-count", {"axes": len(axes), "dependence_functions": n_panels, "step": si})
            return
        k = 0
        for dim in range(model.n_dim):
            if model.conditional_on[dim] is None:
                continue
            for par, dep in model.distributions[dim].conditional_parameters.items():
                ax = axes[k]
                k += 1
                if len(ax.lines) != 1 or len(ax.collections) != 0:
                    run.violate("plot_dep-artists", "count", {"panel": k - 1, "dim": dim, "param": par, "lines": len(ax.lines), "collections": len(ax.collections), "structure": op["structure"], "step": si})
                    return
                x = np.asarray(ax.lines[0].get_xdata(), dtype=float)
                y = np.asarray(ax.lines[0].get_ydata(), dtype=float)
                with np.errstate(all="ignore"):
                    want = np.asarray(dep(x), dtype=float)
                if not np.array_equal(y, want, equal_nan=True):
                    run.violate("plot_dep-line", "dependence-values", {"panel": k - 1, "dim": dim, "param": par, "step": si})
                    return
    finally:
        plt.close("all")


def fitted_model_fixed_first(op):
    """a small fitted model whose conditional distribution has a *fixed* parameter in front of the
    conditional one (mu fixed, sigma a function of the first variable); seeded synthetic data"""
    import scipy.stats as sts
    from virocon import DependenceFunction, GlobalHierarchicalModel, LogNormalDistribution, NormalDistribution, WeibullDistribution, WidthOfIntervalSlicer

    rng = np.random.default_rng(op["dseed"])
    n = op["n"]
    x0 = sts.weibull_min.ppf(rng.uniform(0.001, 0.999, n), 1.8, scale=2.5)
    sig = 0.2 + 0.05 * x0
    u = rng.uniform(0.001, 0.999, n)
    if op["family"] == "LogNormal":
        x1 = sts.lognorm.ppf(u, sig, scale=np.exp(1.9))
        d1 = LogNormalDistribution(f_mu=1.9)
    else:
        x1 = sts.norm.ppf(u, loc=6.0, scale=4 * sig)
        d1 = NormalDistribution(f_mu=6.0)

    def lin(x, a=0.5, b=0.1):
        return a + b * x

    descs = [
        {"distribution": WeibullDistribution(), "intervals": WidthOfIntervalSlicer(width=0.75, min_n_points=30)},
        {"distribution": d1, "conditional_on": 0, "parameters": {"sigma": DependenceFunction(lin, bounds=[(0, None), (None, None)])}},
    ]
    model = GlobalHierarchicalModel(descs)
    data = np.column_stack([x0, x1])
    try:
        model.fit(data)
    except Exception:  # noqa: BLE001 - the workload's data
        return None
    return model, data, None


def do_plot_other(run, scen, op, si, fitted):
    import matplotlib.pyplot as plt
    import virocon as v

    model, data, sem0 = fitted
    sem = copy.deepcopy(op["semantics"]) if op["semantics"] else None
    kind = op["op"]
    exc = None
    figs_before = set(plt.get_fignums())
    try:
        if kind == "plot_dep":
            axes = v.plot_dependence_functions(model, semantics=sem)
        elif kind == "plot_hist":
            figs, axes = v.plot_histograms_of_interval_distributions(model, data, semantics=sem)
        elif kind == "plot_iso":
            ax = v.plot_2D_isodensity(model, data, semantics=sem, swap_axis=op["swap"], levels=op["levels"], n_grid_steps=op["n_grid"])
        else:
            seams.pin_global(scen["seed"] + si)
            axes = v.plot_marginal_quantiles(model, data, semantics=sem)
    except Exception as e:  # noqa: BLE001
        exc = e
    run.event(kind, [op["swap"], op["levels"]], [type(exc).__name__ if exc else None])
    try:
        if exc is not None and isinstance(exc, ValueError) and "Domain error in arguments" in str(exc):
            # the model *fitted* to this sub-sample has a dependence function that leaves the admissible
            # parameter range inside the plotted / sampled range (scipy refuses to evaluate): the
            # workload's model, not the plotting function
            run.inconclusive = "fitted model leaves the parameter domain (scipy: Domain error)"
            return
        if exc is not None:
            run.violate(f"{kind}-raises", type(exc).__name__, {"exc": repr(exc)[:300], "step": si})
            return
        run.count(f"{kind}_checked")
        if kind == "plot_dep":
            k = 0
            for dim in range(model.n_dim):
                if model.conditional_on[dim] is None:
                    continue
                dist = model.distributions[dim]
                cv = np.asarray(dist.conditioning_values, dtype=float)
                for par, dep in dist.conditional_parameters.items():
                    ax = axes[k]
                    k += 1
                    if len(ax.lines) != 1 or len(ax.collections) != 1:
                        run.violate("plot_dep-artists", "count", {"lines": len(ax.lines), "collections": len(ax.collections), "param": par, "step": si})
                        return
                    x = np.asarray(ax.lines[0].get_xdata(), dtype=float)
                    y = np.asarray(ax.lines[0].get_ydata(), dtype=float)
                    with np.errstate(all="ignore"):
                        want = np.asarray(dep(x), dtype=float)
                    if not np.array_equal(y, want, equal_nan=True):
                        run.violate("plot_dep-line", "dependence-values", {"param": par, "max_dev": float(np.nanmax(np.abs(y - want))), "step": si})
                        return
                    if x[0] != 0 or abs(x[-1] - cv.max()) > 1e-12 * max(1, cv.max()):
                        run.violate("plot_dep-line", "abscissae", {"param": par, "x0": float(x[0]), "x1": float(x[-1]), "max_conditioning_value": float(cv.max()), "step": si})
                        return
                    off = _offsets(ax.collections[0])
                    want_sc = np.column_stack([cv, [float(p[par]) for p in dist.parameters_per_interval]])
                    if off.shape != want_sc.shape or not np.array_equal(off, want_sc):
                        run.violate("plot_dep-scatter", "per-interval-estimates", {"param": par, "drawn": off[:3].tolist(), "expected": want_sc[:3].tolist(), "step": si})
                        return
        elif kind == "plot_hist":
            for dim in range(model.n_dim):
                if model.conditional_on[dim] is None:
                    ax = axes[dim]
                    dists = [model.distributions[dim]]
                    axs = [ax]
                else:
                    dists = model.distributions[dim].distributions_per_interval
                    axs = list(axes[dim])[: len(dists)]
                for ax, dist in zip(axs, dists):
                    if len(ax.lines) != 1:
                        run.violate("plot_hist-artists", "line-count", {"dim": dim, "lines": len(ax.lines), "step": si})
                        return
                    x = np.asarray(ax.lines[0].get_xdata(), dtype=float)
                    y = np.asarray(ax.lines[0].get_ydata(), dtype=float)
                    want = np.asarray(dist.pdf(x), dtype=float)
                    if not np.array_equal(y, want, equal_nan=True):
                        run.violate("plot_hist-line", "pdf-values", {"dim": dim, "max_dev": float(np.nanmax(np.abs(y - want))), "step": si})
                        return
        elif kind == "plot_iso":
            xi, yi = (1, 0) if op["swap"] else (0, 1)
            dat = np.asarray(data)[:, [xi, yi]]
            scat = [c for c in ax.collections if type(c).__name__ == "PathCollection" and _offsets(c).shape == dat.shape]
            if len(scat) != 1 or not np.array_equal(_offsets(scat[0]), dat):
                run.violate("plot_iso-scatter", "sample", {"n_scatter": len(scat), "step": si})
                return
            # the level lines: either one ContourSet (new matplotlib) or one PathCollection per level
            level_paths = []
            cs = [c for c in ax.collections if "ContourSet" in type(c).__name__]
            if cs:
                level_paths = [[p] for p in cs[0].get_paths()]
                drawn_levels = list(cs[0].levels)
            else:
                rest = [c for c in ax.collections if c is not scat[0]]
                level_paths = [list(c.get_paths()) for c in rest]
                drawn_levels = None
            if not level_paths:
                run.violate("plot_iso-contours", "no-level-lines", {"step": si})
                return
            if op["levels"] is not None:
                if len(level_paths) != len(op["levels"]) or (drawn_levels is not None and not np.allclose(drawn_levels, op["levels"])):
                    run.violate("plot_iso-contours", "levels", {"n_drawn": len(level_paths), "requested": op["levels"], "step": si})
                    return
            nchk = 0
            for li, paths in enumerate(level_paths):
                vs = [np.asarray(p.vertices, dtype=float) for p in paths if len(p.vertices)]
                if not vs:
                    continue
                vv = np.vstack(vs)
                pts = vv[:: max(1, len(vv) // 60)]
                mc = pts[:, [1, 0]] if op["swap"] else pts  # model coordinates (dim 0, dim 1)
                ok_pts = mc[(mc[:, 0] > 0) & (mc[:, 1] > 0)]
                if len(ok_pts) < 3:
                    continue
                f = np.asarray(model.pdf(ok_pts), dtype=float)
                nchk += len(f)
                lvl = float(op["levels"][li]) if op["levels"] is not None else (float(drawn_levels[li]) if drawn_levels is not None else float(np.median(f)))
                # A marching-squares vertex lies on a grid edge whose end points straddle the level.
                # So the level must lie between the smallest and largest density found within 1.5
                # grid steps of the vertex (this also covers the edge of the support, where the
                # density jumps to 0); a misplaced line (wrong axes, wrong density) is decades off.
                d0 = np.asarray(data, dtype=float)
                h0 = 1.5 * 1.1 * (d0[:, 0].max() - d0[:, 0].min()) / (op["n_grid"] - 1)
                h1 = 1.5 * 1.1 * (d0[:, 1].max() - d0[:, 1].min()) / (op["n_grid"] - 1)
                lo_f, hi_f = f.copy(), f.copy()
                judged = np.isfinite(f)
                for dx, dy in ((h0, 0), (-h0, 0), (0, h1), (0, -h1)):
                    q = ok_pts + np.array([dx, dy])
                    q = np.where(q > 0, q, 1e-9)
                    with np.errstate(all="ignore"):
                        fq = np.asarray(model.pdf(q), dtype=float)
                    judged &= np.isfinite(fq)
                    lo_f, hi_f = np.minimum(lo_f, fq), np.maximum(hi_f, fq)
                # a model fitted to a sub-sample can have a dependence function with a pole inside the
                # plotted range (seen: sigma = a + b / (1 + c h) with c = -0.93, pole at h = 1.08): the
                # density is not a number next to it and level lines run along the pole; such vertices
                # cannot be judged
                if judged.sum() < 3:
                    run.count("plot_iso_levels_not_judged_density_not_finite")
                    continue
                if (~judged).any():
                    run.count("plot_iso_vertices_not_judged_density_not_finite", int((~judged).sum()))
                bad = ~((lo_f <= lvl * 1.3) & (hi_f >= lvl / 1.3)) & judged
                if bad.sum() / judged.sum() > 0.2:
                    run.violate("plot_iso-contours", "density-on-level-line", {"level": lvl, "pdf_at_vertices": f[:5].tolist(), "share_off": float(bad.sum() / judged.sum()), "swap": op["swap"], "step": si})
                    return
            run.count("plot_iso_vertices_checked", nchk)
        else:
            from scipy.stats import morestats as _ms  # noqa: F401

            for dim in range(model.n_dim):
                ax = axes[dim]
                ln = ax.get_lines()[0]
                y = np.asarray(ln.get_ydata(), dtype=float)
                x = np.asarray(ln.get_xdata(), dtype=float)
                if not np.array_equal(y, np.sort(np.asarray(data)[:, dim])):
                    run.violate("plot_mq-points", "ordered-values", {"dim": dim, "step": si})
                    return
                if model.conditional_on[dim] is None:
                    n = len(y)
                    q = np.empty(n)
                    q[-1] = 0.5 ** (1.0 / n)
                    q[0] = 1 - q[-1]
                    i = np.arange(2, n)
                    q[1:-1] = (i - 0.3175) / (n + 0.365)
                    want = np.asarray(model.distributions[dim].icdf(q), dtype=float)
                    if not np.allclose(x, want, rtol=1e-12, atol=0):
                        run.violate("plot_mq-points", "theoretical-quantiles", {"dim": dim, "max_dev": float(np.max(np.abs(x - want))), "step": si})
                        return
    finally:
        for n in set(plt.get_fignums()) - figs_before:
            plt.close(n)


# --------------------------------------------------------------------------


def execute(prop, scen):
    import matplotlib

    matplotlib.use("Agg", force=True)
    import matplotlib.pyplot as plt

    run = core.Run(prop, scen)
    run.signature = core.digest([[(o["op"], (o.get("contour") or {}).get("kind"), (o.get("contour") or {}).get("dim"), (o.get("fault") or {}).get("kind"), (o.get("dc"), o.get("dc_container")) if o["op"] == "plot2d" else None, o.get("swap"), o.get("ax"), os.path.splitext(o.get("path", "x.y"))[1] == "") for o in scen["ops"]]])
    root = tempfile.mkdtemp(prefix="verif-io-")
    state = {}
    try:
        with seams.recorded_warnings():
            S = core.SeedStream(scen["universe"]["jitter"])
            model2 = models.direct_model(models.sea_state_spec(S))
            model3 = models.direct_model(models.three_dim_spec(S))
            fitted = None
            if scen["universe"]["fitted_kind"]:
                u = scen["universe"]
                try:
                    fitted = models.build_predefined(u["fitted_kind"], u["letter"], u["n"], u["dseed"])
                except RuntimeError as e:
                    run.inconclusive = f"workload: predefined model could not be fitted to the sub-sample ({str(e)[:60]})"
                    return run
            for si, op in enumerate(scen["ops"]):
                seams.pin_global(core.h64(scen["seed"], si))
                if op["op"] == "save":
                    do_save(run, scen, op, si, root, model2, model3)
                elif op["op"] == "load":
                    do_load(run, scen, op, si, root)
                elif op["op"] == "plot2d":
                    do_plot2d(run, scen, op, si, model2, state)
                elif op["op"] == "load_default":
                    do_load_default(run, si)
                elif op["op"] == "plot_dep3":
                    do_plot_dep3(run, scen, op, si)
                elif op["op"] == "plot_dep_fixed_first":
                    fm = fitted_model_fixed_first(op)
                    if fm is None:
                        run.count("plot_dep_fixed_first_model_not_fitted")
                    else:
                        do_plot_other(run, scen, dict(op, op="plot_dep"), si, fm)
                elif op["op"] == "plot_iso_indep":
                    # a 2-D model without dependence (two unconditional distributions) and a seeded sample of it
                    S2 = core.SeedStream(scen["universe"]["jitter"])
                    spec = {"dims": [{"family": "Weibull", "params": {"alpha": core.r6(S2.uni(2, 3.5)), "beta": core.r6(S2.uni(1.3, 2.2)), "gamma": 0.0}, "cond_on": None},
                                     {"family": "LogNormal", "params": {"mu": core.r6(S2.uni(1.4, 2.0)), "sigma": core.r6(S2.uni(0.2, 0.4))}, "cond_on": None}]}
                    mi = models.direct_model(spec)
                    smp = np.asarray(mi.draw_sample(400, random_state=int(op["sseed"] % 100000)), dtype=float)
                    do_plot_other(run, scen, dict(op, op="plot_iso"), si, (mi, smp, None))
                else:
                    do_plot_other(run, scen, op, si, fitted)
                if run.violations:
                    break
    finally:
        plt.close("all")
        shutil.rmtree(root, ignore_errors=True)
    return run


def shrink_candidates(prop, scen):
    ops = scen["ops"]
    for i in range(len(ops)):
        if len(ops) > 1:
            c = copy.deepcopy(scen)
            del c["ops"][i]
            if not any(o["op"] in ("plot_dep", "plot_hist", "plot_iso", "plot_mq") for o in c["ops"]):
                c["universe"]["fitted_kind"] = None
            yield c
    for i, o in enumerate(ops):
        if o.get("fault") is not None:
            c = copy.deepcopy(scen)
            c["ops"][i]["fault"] = None
            yield c
        if o.get("semantics") is not None:
            c = copy.deepcopy(scen)
            c["ops"][i]["semantics"] = None
            yield c
        if o["op"] == "plot2d":
            for key, val in (("sample", False), ("dc", None), ("swap", False), ("ax", "new")):
                if o[key] != val:
                    c = copy.deepcopy(scen)
                    c["ops"][i][key] = val
                    yield c
        if o["op"] == "load" and o["rows"] > 3:
            c = copy.deepcopy(scen)
            c["ops"][i]["rows"] = 3
            yield c
        if o["op"] in ("save", "plot2d") and o["contour"]["kind"] != "IFORM":
            c = copy.deepcopy(scen)
            c["ops"][i]["contour"] = {"kind": "IFORM", "alpha": 0.05, "n_points": 4, "dim": 2}
            yield c
        if o["op"] == "save" and o.get("again"):
            c = copy.deepcopy(scen)
            c["ops"][i]["again"] = False
            yield c


def describe(prop):
    return {
        "rule": (
            "one run = 1-4 seeded operations (save a contour of a seeded class/size to a seeded path and semantics, load a synthetic benchmark file, plot_2D_contour with seeded options, "
            "the four other plot functions on a fitted predefined model) with seeded write/read fault plans and Axes-reuse history. distinct = distinct sequence of "
            "(op, contour class, dimension, fault kind, design-conditions mode, swap, axes mode, extension?); non-trivial = every run (each op ends in a content check or a fault verdict)."
        ),
        "real": ["save_contour_coordinates (numpy.savetxt)", "read_ec_benchmark_dataset (pandas.read_csv)", "all virocon.plotting functions", "matplotlib (Agg backend)", "all six contour classes", "the file system (a per-run temp dir, removed at run end)"],
        "stub": ["FaultyFile proxy returned by builtins.open / numpy's default opener for paths under the run's sandbox directory (injects ENOSPC/EIO/short reads over a real file)"],
        "assumptions": [
            "rows of the export use the header's ';' delimiter and 6 decimals",
            "a save that raises may leave anything on disk; a save that returns must have written the complete file",
            "isodensity lines are judged by evaluating the model's pdf at the drawn vertices (25 % tolerance for grid interpolation)",
            "a contour's coordinates are compared before and after every plot; level-line vertices next to a non-finite density are not judged",
        ],
        "probes": ["save-after-fault-recovers", "save-overwrites", "reader-bypassed-file-seam", "file-read-again-after-caller-changed-frame", "save-overwrites-with-shorter-contour", "default-dataset-read"],
    }
