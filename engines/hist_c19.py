"""C19 - evaluation is pure and repeatable; predefined models share no state.

System under simulation: 2-4 live models sharing one process (each created by
a *fresh* call of a predefined getter - two slots may use the same getter - or
a seeded directly-parameterised 2-D/3-D model; the two EW getters optionally
wrapped in a TransformedModel), each fitted once at creation.  A seeded
schedule interleaves evaluation / contour / plot / save / slice operations and
FIT operations (optionally with an injected optimiser failure, F1) over all
slots, with global-RNG skews (F3) in between.

Invariants: bit-exact structural snapshots of *every* slot around every step
(purity, isolation of fitting), byte-identical caller arrays, every evaluation
executed twice under the same pinned global-RNG state (repeatability), and
projection equivalence: each slot's results in the interleaved run equal the
results of running that slot's operations alone in a fresh universe.
"""

import copy
import functools
import math
import os
import shutil
import tempfile
import types

import numpy as np

from sim import core, models, seams

NAME = "hist"

KINDS = ["dnvgl_hs_tz", "dnvgl_hs_u", "omae_hs_tz", "omae_v_hs", "windmeier", "nonzero"]


def tier_config(prop, tier):
    if tier == "quick":
        return {"runs": 160, "chunk": 2, "cap_s": 600, "det_seeds": 4, "shrink_budget": 40}
    return {"budget_s": 1500, "chunk": 2, "cap_s": 900, "det_seeds": 16, "shrink_budget": 60, "grace_s": 2400}


EVAL_OPS = [
    ("pdf", 5), ("cdf", 0.5), ("marginal_pdf", 1.2), ("marginal_cdf", 0.8), ("marginal_icdf", 1.2), ("conditional_cdf", 1.5), ("conditional_icdf", 1.5), ("dist_icdf", 1.5), ("dist_pdf", 1.5),
    ("draw_int", 3), ("draw_gen", 2), ("iform", 3), ("isorm", 2), ("hdc", 1.5), ("hdc_small", 0.8), ("direct", 1.5), ("and", 1), ("or", 1), ("design", 1.5), ("design_twice", 1.0),
    ("plot_contour", 2), ("plot_iso", 0.8), ("plot_dep", 1.2), ("plot_mq", 0.5), ("plot_hist", 0.8), ("save", 1.5), ("slice", 1.5),
    ("touch_returned", 1.5), ("deepcopy_eval", 1.0), ("repr", 0.5), ("custom_template_fit", 0.7),
]
# operations that legitimately draw from the global RNG (no seed can be passed to them)
GLOBAL_RNG_USERS = {"plot_mq", "marginal_icdf", "and", "or"}  # Monte-Carlo inside, no seed parameter
T_OPS = [("pdf", 4), ("draw_int", 3), ("t_iform", 1.0), ("t_empirical", 0.6), ("t_cond_sample", 1.5), ("t_empirical_sample", 1.2)]


def generate(prop, seed, tier):
    S = core.SeedStream(seed)
    n_slots = S.int(2, 4 if tier == "thorough" else 3)
    slots = []
    for i in range(n_slots):
        if S.chance(0.8):
            kind = S.pick(KINDS) if not (slots and S.chance(0.35)) else S.pick([s["kind"] for s in slots if s["kind"] in KINDS] or KINDS)
            sl = {"kind": kind, "letter": S.pick(["A", "B", "C"]), "n": S.pick([800, 1500]), "dseed": S.sub("d", i), "transformed": kind in ("windmeier", "nonzero") and S.chance(0.4), "random_state": S.pick([None, 42])}
        else:
            sl = {"kind": S.pick(["direct2", "direct3"]), "jitter": S.sub("j", i), "structure": S.pick([[None, 0, 1], [None, 0, 0], [None, None, 1]])}
        slots.append(sl)
    max_ops = 12 if tier == "thorough" else 6
    n_ops = S.int(3, max_ops)
    ops = []
    for k in range(n_ops):
        s = S.int(0, n_slots - 1)
        sl = slots[s]
        if S.chance(0.12):
            ops.append({"op": "skew", "k": S.sub("sk", k)})
            continue
        others = [j for j, o in enumerate(slots) if j != s and o["kind"] in KINDS]
        if sl["kind"] in ("windmeier", "nonzero") and others and S.chance(0.25):
            # the caller fits, then changes in place the entry the model filled into *his*
            # fit-description list; afterwards a model built from a fresh description is fitted
            ops.append({"op": "fit", "slot": s, "letter": S.pick(["A", "B", "C"]), "n": 800, "dseed": S.sub("fe", k), "fail_at": None})
            ops.append({"op": "edit_fit_desc", "slot": s})
            ops.append({"op": "fit", "slot": S.pick(others), "letter": S.pick(["A", "B", "C"]), "n": 800, "dseed": S.sub("fo", k), "fail_at": None})
            continue
        if sl["kind"] in KINDS and S.chance(0.1):
            # keep a deep copy of this model aside; whatever happens to the original must not reach it
            ops.append({"op": "shadow", "slot": s, "aseed": S.sub("sh", k)})
            continue
        if sl["kind"] in KINDS and S.chance(0.22):
            o = {"op": "fit", "slot": s, "letter": S.pick(["A", "B", "C"]), "n": S.pick([800, 1200]), "dseed": S.sub("fd", k), "fail_at": S.pick([None, None, 0, 1, 2])}
            ops.append(o)
            continue
        if sl.get("transformed") and S.chance(0.35):
            # evaluation / cache-creating operation / the same evaluation again
            first = {"op": S.pick(["draw_int", "t_cond_sample", "t_iform", "t_empirical"] if S.chance(0.8) else ["pdf"]), "slot": s, "aseed": S.sub("a", k), "as_list": False}
            ops.append(first)
            ops.append({"op": "t_empirical" if first["op"] != "t_empirical" else "t_empirical_sample", "slot": s, "aseed": S.sub("b", k), "as_list": False})
            ops.append(dict(first, repeat_of=len(ops) - 2))
            continue
        if sl.get("transformed"):
            name = S.wpick(T_OPS)
        else:
            name = S.wpick(EVAL_OPS)
            if sl["kind"] == "direct3" and name in ("hdc", "hdc_small", "direct", "and", "or", "design", "design_twice", "plot_contour", "plot_iso", "cdf", "plot_dep", "plot_hist", "plot_mq", "slice"):
                name = S.pick(["pdf", "iform", "isorm", "draw_int", "marginal_icdf", "save"])
            if sl["kind"] == "direct2" and name in ("plot_dep", "plot_hist", "plot_mq", "slice"):
                name = S.pick(["pdf", "iform", "hdc", "draw_int", "plot_contour"])
        ops.append({"op": name, "slot": s, "aseed": S.sub("a", k), "as_list": S.chance(0.3) and not sl.get("transformed")})
        # the same evaluation again later in the run (hidden caches, pyplot state, ...)
        evals = [(i, o) for i, o in enumerate(ops[:-1]) if "aseed" in o and "repeat_of" not in o]
        if evals and S.chance(0.3):
            i, o = S.pick(evals)
            r = dict(o)
            r["repeat_of"] = i
            ops.append(r)
    return {"engine": NAME, "property": prop, "seed": seed, "slots": slots, "ops": ops}


# --------------------------------------------------------------------------
# structural snapshot of the whole object graph of a model
# --------------------------------------------------------------------------


def snapshot(obj, baseline=None, public_only=False):
    """Bit-exact structural description of everything mutable reachable from obj.
    Caches (TransformedModel._sample) are reported separately."""
    seen = {}
    caches = {}
    names = set()

    def walk(o, path):
        if o is None or isinstance(o, (bool, str, bytes)):
            return o
        if isinstance(o, (int, np.integer)):
            return int(o)
        if isinstance(o, (float, np.floating)):
            f = float(o)
            return "nan" if f != f else f.hex()
        if isinstance(o, np.ndarray):
            return ["nd", str(o.dtype), list(o.shape), core.digest(o)]
        if isinstance(o, (types.FunctionType, types.BuiltinFunctionType, types.MethodType, type, types.ModuleType)):
            return ["fn", getattr(o, "__qualname__", getattr(o, "__name__", repr(type(o))))]
        if isinstance(o, np.random.Generator):
            return ["generator"]
        oid = id(o)
        if oid in seen:
            return ["ref", seen[oid]]
        seen[oid] = len(seen)
        if isinstance(o, functools.partial):
            return ["partial", walk(o.func, path), [walk(a, path) for a in o.args], {k: walk(v, path + "." + k) for k, v in sorted(o.keywords.items())}]
        if isinstance(o, dict):
            return ["dict", [[walk(k, path), walk(v, path + "." + str(k))] for k, v in o.items()]]
        if isinstance(o, (list, tuple)):
            return ["seq", type(o).__name__, [walk(v, path + f"[{i}]") for i, v in enumerate(o)]]
        if isinstance(o, (set, frozenset)):
            return ["set", len(o)]
        d = getattr(o, "__dict__", None)
        if d is not None:
            out = ["obj", type(o).__name__]
            items = []
            for k, v in d.items():
                if type(o).__name__ == "TransformedModel" and k == "_sample":
                    caches[path + "._sample"] = None if v is None else core.digest(v)
                    continue
                if k.startswith("_") and (public_only or (baseline is not None and (path + "." + k) not in baseline)):
                    continue  # a private attribute that appeared after creation: a cache, not model state
                names.add(path + "." + k)
                items.append([k, walk(v, path + "." + k)])
            out.append(items)
            return out
        return ["other", type(o).__name__]

    tree = walk(obj, "model")
    caches["__names__"] = names
    return tree, caches


def module_globals():
    from virocon import variable_transform as vt

    return {"g": float(vt.g).hex(), "factor": float(vt.factor).hex(), "factor_sqrt": float(vt.factor_sqrt).hex()}


def process_state():
    """interpreter-wide settings an evaluation has no business changing (a leaked warnings filter turns
    every later warning of any library into an exception; error state and print options change results)"""
    import os
    import warnings

    return {
        "warnings.filters": [repr((f[0], getattr(f[1], "pattern", f[1]), getattr(f[2], "__name__", f[2]), getattr(f[3], "pattern", f[3]), f[4])) for f in warnings.filters],
        "numpy.geterr": sorted(np.geterr().items()),
        "numpy.printoptions": sorted((k, repr(v)) for k, v in np.get_printoptions().items()),
        "cwd": os.getcwd(),
    }


def first_diff(a, b, path="model"):
    if type(a) != type(b):
        return path
    if isinstance(a, list):
        if len(a) != len(b):
            return path + f"(len {len(a)} vs {len(b)})"
        for i, (x, y) in enumerate(zip(a, b)):
            nm = path
            if len(a) == 2 and isinstance(a[0], str) and not isinstance(a[1], list):
                nm = path
            d = first_diff(x, y, path + (f".{a[0]}" if (i == 1 and len(a) == 2 and isinstance(a[0], str)) else ""))
            if d:
                return d
        return None
    if isinstance(a, dict):
        for k in a:
            if k not in b:
                return path + "." + str(k)
            d = first_diff(a[k], b[k], path + "." + str(k))
            if d:
                return d
        return None
    return None if a == b else path + f" ({str(a)[:30]} -> {str(b)[:30]})"


# --------------------------------------------------------------------------
# universe
# --------------------------------------------------------------------------


class Slot:
    def __init__(self, spec):
        self.spec = spec
        self.local = 0  # slot-local operation index (seeds the global RNG per step)
        k = spec["kind"]
        self.data = None
        self.sem = None
        if k in KINDS:
            self.model, self.data, self.sem = models.build_predefined(k, spec["letter"], spec["n"], spec["dseed"], fit=True, transformed=spec.get("transformed", False), precision_factor=0.1, random_state=spec.get("random_state"))
        elif k == "direct2":
            self.model = models.direct_model(models.sea_state_spec(core.SeedStream(spec["jitter"])))
        else:
            self.model = models.direct_model(models.three_dim_spec(core.SeedStream(spec["jitter"]), tuple(spec["structure"])))
        self.base = getattr(self.model, "model", self.model)
        self.n_dim = self.base.n_dim
        self.ax = None
        self.last_fit_desc = None  # the list the caller handed to the last fit (the model may have filled it)
        self.shadow = None  # (deep copy, evaluation points, digest of its pdf at copy time)


def _points(slot, rng, n):
    """evaluation points inside the bulk of the model (from a seeded draw of the harness's own numbers)"""
    if slot.data is not None and not slot.spec.get("transformed"):
        idx = rng.choice(len(slot.data), size=n, replace=False)
        return slot.data[idx].copy()
    if slot.spec.get("transformed"):
        d = slot.data[rng.choice(len(slot.data), size=n, replace=False)]
        return np.column_stack([d[:, 0], np.sqrt(2 * math.pi * d[:, 0] / (9.81 * d[:, 1]))])
    base = np.array([2.0, 6.0, 7.0][: slot.n_dim])
    return base * rng.uniform(0.6, 1.5, size=(n, slot.n_dim))


def _maybe_list(a, as_list):
    return a.tolist() if as_list else a


def run_op(slot, op, root):
    """Execute one evaluation op on a slot.  Returns (result digest material, inputs, inputs copies)."""
    import matplotlib.pyplot as plt
    import virocon as v

    rng = np.random.default_rng(op["aseed"])
    m = slot.model
    base = slot.base
    name = op["op"]
    inputs = []

    def arr(a):
        a = np.asarray(a, dtype=float)
        inputs.append((a, (a.copy(), a.shape, a.strides, a.dtype)))
        return a

    al = op.get("as_list", False)
    if name == "pdf":
        pts = _points(slot, rng, 5)
        if rng.random() < 0.5:
            pts[0, int(rng.integers(0, slot.n_dim))] = 0.0  # a point on the edge of the support
            pts[1, int(rng.integers(0, slot.n_dim))] = -0.5  # and one outside
        x = arr(pts)
        return np.asarray(m.pdf(_maybe_list(x, al))), inputs
    if name == "cdf":
        pt = _points(slot, rng, 1)
        x = arr(pt[0].copy() if rng.random() < 0.5 else pt)  # a single point as a 1-D array or as (1, n_dim)
        return np.asarray(m.cdf(_maybe_list(x, al))), inputs
    if name == "touch_returned":
        # the caller scribbles over objects the API handed out (parameter dicts, a contour's
        # coordinates); the model must not notice
        out = []
        for dist in base.distributions:
            prm = dist.parameters if not hasattr(dist, "conditional_parameters") else dist.distribution.parameters
            for kk in list(prm):
                prm[kk] = -12345.0
            out.append(sorted(prm))
        c = v.IFORMContour(m, 0.1, n_points=6)
        before = np.array(c.coordinates, dtype=float)
        c.coordinates[:] = 0.0
        return [out, before, np.asarray(m.pdf(_points(slot, rng, 3)))], inputs
    if name == "deepcopy_eval":
        import copy as _copy

        m2 = _copy.deepcopy(m)
        x = arr(_points(slot, rng, 4))
        return [np.asarray(m2.pdf(x)), np.asarray(m.pdf(x))], inputs
    if name == "repr":
        return [repr(m)[:40]], inputs
    if name == "dist_pdf":
        pts = _points(slot, rng, 5)[:, 0].copy()
        pts[0], pts[1] = 0.0, -0.3
        x = arr(pts)
        return np.asarray(base.distributions[0].pdf(_maybe_list(x, al))), inputs
    if name in ("marginal_pdf", "marginal_cdf"):
        dim = int(rng.integers(0, slot.n_dim))
        x = arr(_points(slot, rng, 2)[:, dim])
        if name == "marginal_pdf" and base.conditional_on[dim] is None:
            x = arr(np.concatenate([[0.0, -0.2], inputs.pop()[0]]))
        if base.conditional_on[dim] is not None and slot.n_dim > 2:
            dim = 0
        return np.asarray(getattr(m, name)(x, dim)), inputs
    if name == "marginal_icdf":
        dim = int(rng.integers(0, slot.n_dim))
        p = arr(np.sort(rng.uniform(0.05, 0.95, 3)))
        return np.asarray(m.marginal_icdf(_maybe_list(p, al), dim)), inputs
    if name in ("conditional_cdf", "conditional_icdf"):
        dim = int(rng.integers(0, slot.n_dim))
        pts = _points(slot, rng, 4)
        given = arr(pts)
        if name == "conditional_cdf":
            x = arr(pts[:, dim].copy())
            return np.asarray(m.conditional_cdf(x, dim, given)), inputs
        p = arr(rng.uniform(0.05, 0.95, 4))
        return np.asarray(m.conditional_icdf(p, dim, given)), inputs
    if name == "dist_icdf":
        p = arr(np.sort(rng.uniform(0.01, 0.99, 5)))
        return np.asarray(base.distributions[0].icdf(_maybe_list(p, al))), inputs
    if name == "draw_int":
        if slot.spec.get("transformed"):
            return np.asarray(m.draw_sample(200)), inputs
        return np.asarray(m.draw_sample(300, random_state=0 if op["aseed"] % 4 == 0 else int(op["aseed"] % 100000))), inputs
    if name == "draw_gen":
        return np.asarray(m.draw_sample(300, random_state=np.random.default_rng(op["aseed"]))), inputs
    if name in ("iform", "isorm"):
        cls = v.IFORMContour if name == "iform" else v.ISORMContour
        c = cls(m, float(rng.choice([0.2, 0.05, 0.01])), n_points=int(rng.choice([6, 12, 30])))
        return np.asarray(c.coordinates, dtype=float), inputs
    if name == "hdc":
        lim = [(0, float(np.max(slot.data[:, i]) * 1.5)) if slot.data is not None else (0, 16) for i in range(2)]
        c = v.HighestDensityContour(m, 0.2, limits=lim, deltas=[(l[1] - l[0]) / 40 for l in lim])
        co = c.coordinates
        return (np.asarray(co, dtype=float) if not isinstance(co, list) else [np.asarray(p, dtype=float) for part in co for p in part]), inputs
    if name == "hdc_small":
        # limits that cannot contain 1 - alpha of the probability: the documented warning path
        lim = [(0, float(np.median(slot.data[:, i]) * 0.7)) if slot.data is not None else (0, 1.5) for i in range(2)]
        c = v.HighestDensityContour(m, 0.2, limits=lim, deltas=[(l[1] - l[0]) / 30 for l in lim])
        co = c.coordinates
        return (np.asarray(co, dtype=float) if not isinstance(co, list) else [np.asarray(p, dtype=float) for part in co for p in part]), inputs
    if name in ("direct", "and", "or", "design", "design_twice", "plot_contour", "save"):
        if slot.n_dim == 2:
            sample = arr(np.asarray(m.draw_sample(1500, random_state=int(op["aseed"] % 9973)), dtype=float))
            if name == "direct":
                c = v.DirectSamplingContour(m, 0.1, deg_step=10, sample=sample)
            elif name == "and":
                c = v.AndContour(m, 0.1, deg_step=9, sample=sample, allowed_error=0.05)
            elif name == "or":
                c = v.OrContour(m, 0.1, deg_step=9, sample=sample, allowed_error=0.05)
            else:
                c = v.IFORMContour(m, 0.1, n_points=10)
        else:
            c = v.IFORMContour(m, 0.1, n_points=10)
        co = np.array(c.coordinates, dtype=float, copy=True)
        if isinstance(c.coordinates, np.ndarray) and c.coordinates.dtype != object:
            # the contour object is the caller's from now on: what is done with it must not change it
            inputs.append((c.coordinates, (c.coordinates.copy(), c.coordinates.shape, c.coordinates.strides, c.coordinates.dtype)))
        if name == "design":
            return [co, np.asarray(v.calculate_design_conditions(c, steps=5), dtype=float)], inputs
        if name == "design_twice":
            # design conditions the other way round and with steps the function refuses (a vertical line
            # through a contour vertex crosses the contour more than twice -> AssertionError by design),
            # the exception caught; then the ordinary request on the same contour object
            sw = bool(rng.integers(0, 2))
            first = None
            try:
                first = np.asarray(v.calculate_design_conditions(c, steps=[float(t) for t in np.sort(np.unique(co[:, 1 if sw else 0]))[1:-1]], swap_axis=sw), dtype=float)
            except (AssertionError, ValueError, IndexError) as e:
                first = "EXC:" + type(e).__name__
            return [co, first, np.asarray(v.calculate_design_conditions(c, steps=5, swap_axis=sw), dtype=float), np.asarray(v.calculate_design_conditions(c, steps=5), dtype=float)], inputs
        if name == "plot_contour":
            smp = arr(_points(slot, rng, 6))
            ax = v.plot_2D_contour(c, sample=smp, design_conditions=None, swap_axis=bool(rng.integers(0, 2)))
            ax = ax[0] if isinstance(ax, tuple) else ax
            out = [co, np.asarray(ax.lines[0].get_xydata(), dtype=float)]
            plt.close(ax.figure)
            return out, inputs
        if name == "save":
            path = os.path.join(root, f"c{slot.local}_{id(slot) % 1000}.txt")
            v.save_contour_coordinates(c, path)
            with open(path, "rb") as f:
                return [co, f.read()], inputs
        return co, inputs
    if name == "plot_iso":
        d = arr(slot.data[:300] if slot.data is not None else _points(slot, rng, 50))
        ax = v.plot_2D_isodensity(m, d, n_grid_steps=40)
        out = [np.asarray(c.get_offsets(), dtype=float) for c in ax.collections[:1]]
        plt.close(ax.figure)
        return out, inputs
    if name == "plot_dep":
        axes = v.plot_dependence_functions(m)
        out = [np.asarray(ax.lines[0].get_xydata(), dtype=float) for ax in axes]
        for ax in axes:
            plt.close(ax.figure)
        return out, inputs
    if name == "plot_mq":
        d = arr(slot.data[:200])
        axes = v.plot_marginal_quantiles(m, d)
        out = [np.asarray(ax.get_lines()[0].get_xydata(), dtype=float) for ax in axes]
        for ax in axes:
            plt.close(ax.figure)
        return out, inputs
    if name == "plot_hist":
        d = arr(slot.data)
        figs, axes = v.plot_histograms_of_interval_distributions(m, d)
        out = []
        for a in axes:
            for ax in np.atleast_1d(a):
                if ax.lines:
                    out.append(np.asarray(ax.lines[0].get_xydata(), dtype=float))
        for f in figs:
            plt.close(f)
        return out, inputs
    if name == "slice":
        cds = sorted({c for c in base.conditional_on if c is not None})
        j = cds[0] if cds else 0
        d = arr(slot.data[:, j].copy())
        sl, refs, bnd = base.interval_slicers[j].slice_(d)
        return [np.array([int(np.sum(s)) for s in sl]), np.asarray(refs, dtype=float), np.asarray(bnd, dtype=float)], inputs
    if name == "custom_template_fit":
        # a user-defined distribution (public base class) that keeps its parameters in a dict and
        # updates it in place, used as the template of a conditional dimension
        import scipy.stats as sts
        from virocon import DependenceFunction, GlobalHierarchicalModel, NormalDistribution, WeibullDistribution, WidthOfIntervalSlicer

        class TableNormal(NormalDistribution):
            def __init__(self, mu=0, sigma=1, f_mu=None, f_sigma=None):
                self.table = {"mu": mu if f_mu is None else f_mu, "sigma": sigma if f_sigma is None else f_sigma}
                self.f_mu, self.f_sigma = f_mu, f_sigma

            mu = property(lambda self: self.table["mu"], lambda self, v: self.table.__setitem__("mu", v))
            sigma = property(lambda self: self.table["sigma"], lambda self, v: self.table.__setitem__("sigma", v))

        def lin(x, a=1.0, b=0.1):
            return a + b * x

        n = 800
        x0 = sts.weibull_min.ppf(rng.uniform(0.001, 0.999, n), 1.8, scale=2.5)
        x1 = sts.norm.ppf(rng.uniform(0.001, 0.999, n), loc=4.0 + 0.5 * x0, scale=1.0 + 0.1 * x0)
        tmpl = TableNormal(mu=5.0, sigma=2.0)
        gm = GlobalHierarchicalModel([
            {"distribution": WeibullDistribution(), "intervals": WidthOfIntervalSlicer(width=1.0, min_n_points=30)},
            {"distribution": tmpl, "conditional_on": 0, "parameters": {"mu": DependenceFunction(lin), "sigma": DependenceFunction(lin, bounds=[(0, None), (None, None)])}},
        ])
        gm.fit(np.column_stack([x0, x1]))
        per = gm.distributions[1].distributions_per_interval
        return [[float(tmpl.mu), float(tmpl.sigma)], [float(d_.mu) for d_ in per], len({id(d_.table) for d_ in per} | {id(tmpl.table)}) - len(per) - 1], inputs
    if name == "t_iform":
        c = v.IFORMContour(m, 0.2, n_points=4)
        return np.asarray(c.coordinates, dtype=float), inputs
    if name == "t_empirical":
        pts = _points(slot, rng, 2)
        x = arr(pts[0].copy() if rng.random() < 0.5 else pts)
        return np.asarray(m.empirical_cdf(x)), inputs
    if name == "t_empirical_sample":
        # the caller supplies the sample the proportions are to be counted in
        pts = _points(slot, rng, 2)
        smp = arr(_points(slot, rng, 400))
        return np.asarray(m.empirical_cdf(pts, sample=smp)), inputs
    if name == "t_cond_sample":
        return np.asarray(m.conditional_sample(2000, 1, [float(_points(slot, rng, 1)[0, 0])], random_state=int(op["aseed"] % 1000))), inputs
    raise ValueError(name)


def fit_data(slot, op):
    return models.dataset_for(slot.spec["kind"], op["letter"], op["n"], op["dseed"])


def check_shadow(slot):
    """pdf of the deep copy kept aside, digested: must stay what it was at copy time"""
    cp, pts, ref = slot.shadow
    try:
        now = core.digest(np.asarray(cp.pdf(pts.copy())))
    except Exception as e:  # noqa: BLE001
        now = "EXC:" + type(e).__name__
    return now == ref, ref, now


def do_fit(slot, op):
    desc, fit_desc, sem, tr = models.predefined(slot.spec["kind"])
    slot.last_fit_desc = fit_desc
    data = fit_data(slot, op)
    exc = None
    with seams.OptimiserShim(fail_at=[op["fail_at"]] if op.get("fail_at") is not None else None) as shim:
        try:
            if slot.spec.get("transformed"):
                hs_tz = np.column_stack([data[:, 0], np.sqrt(2 * math.pi * data[:, 0] / (9.81 * data[:, 1]))])
                slot.model.fit(hs_tz, fit_desc)
            else:
                slot.model.fit(data, fit_desc)
        except Exception as e:  # noqa: BLE001
            exc = e
    return exc, shim.fired


def _pin_for(scen, s, local, rep=0):
    return core.h64(scen["seed"], "slot", s, local)


def execute_universe(scen, only_slot=None, run=None):
    """Run the schedule (restricted to one slot if only_slot is given).  Returns the
    list of per-op result digests (None for ops not executed) and fills `run`
    with violations when checking is on (run is not None)."""
    import matplotlib

    matplotlib.use("Agg", force=True)
    import matplotlib.pyplot as plt

    root = tempfile.mkdtemp(prefix="verif-hist-")
    digests = [None] * len(scen["ops"])
    checking = run is not None
    try:
        slots = {}
        for i, spec in enumerate(scen["slots"]):
            if only_slot is not None and i != only_slot:
                continue
            seams.pin_global(core.h64(scen["seed"], "create", i))
            try:
                slots[i] = Slot(spec)
            except RuntimeError:
                raise
            except Exception as e:  # noqa: BLE001
                raise RuntimeError(f"creation of slot {i} ({spec['kind']}) raised {type(e).__name__}: {e}")
        pins = {}
        fit_epoch = {i: 0 for i in slots}
        epoch_at = {}
        snaps = {i: snapshot(s.model) for i, s in slots.items()} if checking else {}
        base_names = {i: snaps[i][1]["__names__"] for i in snaps}
        cache_names = {i: set() for i in snaps}  # private attributes that first appeared during an evaluation
        glob0 = module_globals()
        proc0 = process_state()
        for k, op in enumerate(scen["ops"]):
            if op["op"] == "skew":
                seams.pin_global(op["k"])
                np.random.random(5)
                if checking:
                    run.count("fault:F3-global-rng-skew")
                    run.event("skew", k, None, ["F3"])
                continue
            s = op["slot"]
            if s not in slots:
                continue
            slot = slots[s]
            local = slot.local
            slot.local += 1
            if op["op"] == "edit_fit_desc":
                fd = slot.last_fit_desc
                if isinstance(fd, list) and len(fd) > 1 and isinstance(fd[1], dict):
                    fd[1]["method"] = "wlsq"
                    fd[1]["weights"] = "quadratic"
                    if checking:
                        run.count("probe:caller-edited-filled-fit-description")
                digests[k] = "edit"
                if checking:
                    run.event("edit_fit_desc", s, None)
                continue
            if op["op"] == "shadow":
                import copy as _copy

                rng_ = np.random.default_rng(op["aseed"])
                pts = _points(slot, rng_, 4)
                cp = _copy.deepcopy(slot.model)
                try:
                    ref = core.digest(np.asarray(cp.pdf(pts.copy())))
                except Exception as e:  # noqa: BLE001
                    ref = "EXC:" + type(e).__name__
                slot.shadow = (cp, pts, ref)
                digests[k] = ref
                if checking:
                    run.event("shadow", s, ref)
                continue
            if op["op"] == "fit":
                fit_epoch[s] += 1
                seams.pin_global(_pin_for(scen, s, local))
                exc, fired = do_fit(slot, op)
                digests[k] = core.digest([snapshot(slot.model, public_only=True)[0], type(exc).__name__ if exc else None])
                if checking:
                    if fired:
                        run.count("fault:F1-optimiser-failure", fired)
                    run.count("probe:fit-between-evaluations")
                    run.event("fit", [s, op["letter"], op["n"], op["fail_at"]], digests[k], ["F1"] if fired else [])
                    # I2: isolation of fitting
                    for j, other in slots.items():
                        tree, caches = snapshot(other.model, None if j == s else base_names[j])
                        if j == s:
                            # what the fit created is state from now on; what evaluations created stays a cache
                            base_names[j] = caches["__names__"] - cache_names[j]
                            tree, caches = snapshot(other.model, base_names[j])
                        if j != s:
                            if tree != snaps[j][0]:
                                run.violate("I2-fit-changes-another-model", f"{slot.spec['kind']}->{other.spec['kind']}", {"fitted_slot": s, "changed_slot": j, "where": first_diff(snaps[j][0], tree), "same_getter": slot.spec["kind"] == other.spec["kind"], "step": k})
                                return digests
                        snaps[j] = (tree, caches)
                    # templates of the fitted model keep their own parameters
                    for di, dist in enumerate(slot.base.distributions):
                        tmpl = getattr(dist, "distribution", None)
                        if tmpl is not None:
                            fresh = type(tmpl)(**{"f_" + p: v for p, v in getattr(dist, "fixed_parameters", {}).items()}) if not type(tmpl).__name__.startswith("Scipy") else None
                            if fresh is not None and {p: float(v) for p, v in tmpl.parameters.items()} != {p: float(v) for p, v in fresh.parameters.items()}:
                                run.violate("I2-fit-alters-template", f"{slot.spec['kind']}/dim{di}", {"template": {p: float(v) for p, v in tmpl.parameters.items()}, "as_constructed": {p: float(v) for p, v in fresh.parameters.items()}, "step": k})
                                return digests
                    if module_globals() != glob0:
                        run.violate("I2-module-globals-changed", "variable_transform", {"step": k})
                        return digests
                    ps = process_state()
                    if ps != proc0:
                        run.violate("I2-process-state-changed", "+".join(kk for kk in ps if ps[kk] != proc0[kk]), {"step": k})
                        return digests
                    for j, other in slots.items():
                        if other.shadow is not None:
                            ok_, ref_, now_ = check_shadow(other)
                            run.count("probe:deep-copy-checked-after-a-fit")
                            if not ok_:
                                run.violate("I2-fit-changes-a-deep-copy", f"{other.spec['kind']}" + ("" if j == s else "/of-another-model"), {"fitted_slot": s, "copy_of_slot": j, "pdf_digest_at_copy_time": ref_, "now": now_, "step": k})
                                return digests
                continue
            # ---- evaluation op, executed twice under the same pinned global-RNG state ----
            pin = _pin_for(scen, s, local)
            if op.get("repeat_of") is not None and op["repeat_of"] in pins:
                pin = pins[op["repeat_of"]]  # same global-RNG state as the first time
            pins[k] = pin
            epoch_at[k] = fit_epoch[s]
            results = []
            exc = None
            rng_touched = False
            reps = 2 if checking else 1
            seeded = op["op"] in ("draw_gen", "t_cond_sample") or (op["op"] == "draw_int" and (not slot.spec.get("transformed") or slot.spec.get("random_state") is not None))
            for rep in range(reps):
                # an operation that was given a seed must not depend on the global RNG at all:
                # its second execution runs under another global state
                seams.pin_global(pin if (rep == 0 or not seeded) else pin + 7919)
                g0 = core.digest(list(np.random.get_state())) if checking else None
                try:
                    res, inputs = run_op(slot, op, root)
                    results.append(core.digest(res))
                    if checking and rep == 0 and not slot.spec.get("transformed") and op["op"] not in GLOBAL_RNG_USERS and core.digest(list(np.random.get_state())) != g0:
                        rng_touched = True
                except Exception as e:  # noqa: BLE001
                    exc = e
                    results.append("EXC:" + type(e).__name__)
                    inputs = []
                finally:
                    plt.close("all")
                if checking and rep == 0:
                    for a, (a0, shp, strd, dt) in inputs:
                        if a.shape != shp or a.strides != strd or a.dtype != dt or a.tobytes() != a0.tobytes():
                            what = "shape" if a.shape != shp else ("layout" if a.strides != strd or a.dtype != dt else "values")
                            run.violate("I1-caller-array-modified", f"{op['op']}/{what}", {"slot": s, "kind": slot.spec["kind"], "shape_before": list(shp), "shape_after": list(a.shape), "step": k})
                            return digests
            digests[k] = results[0]
            if checking and op["op"] == "custom_template_fit" and exc is None:
                tm_, mus_, shared_ = res
                run.count("probe:user-defined-template-with-a-parameter-table")
                if tm_ != [5.0, 2.0] or shared_ != 0 or len(set(mus_)) < 2:
                    run.violate("I2-fit-alters-template", "user-defined-distribution", {"template_after_fit": tm_, "as_constructed": [5.0, 2.0], "interval_distributions_sharing_a_table": -shared_, "distinct_interval_means": len(set(mus_)), "step": k})
                    return digests
            if checking and rng_touched:
                # an evaluation that was given a seed, or that involves no sampling at all, has no business
                # with NumPy's process-wide legacy RNG: re-seeding or consuming it changes what the caller's
                # own unseeded code does next
                run.violate("I1-global-rng-touched-by-a-deterministic-evaluation", f"{op['op']}", {"slot": s, "kind": slot.spec["kind"], "step": k})
                return digests
            if checking and inputs:
                # an evaluation must not keep the caller's array: what the caller does with it later would
                # change the model's answers
                held = [a for a in arrays_reachable(slot.model) if any(np.shares_memory(a, inp) for inp, _ in inputs)]
                run.count("probe:caller-arrays-checked-for-aliasing", len(inputs))
                if held:
                    run.violate("I1-model-keeps-callers-array", f"{op['op']}", {"slot": s, "kind": slot.spec["kind"], "shape": list(held[0].shape), "step": k})
                    return digests
            if checking:
                run.event(op["op"], [s, op["aseed"]], results[0])
                run.count("evaluations_executed", reps)
                if exc is not None:
                    run.count("evaluation_raised:" + type(exc).__name__)
                ro = op.get("repeat_of")
                if ro is not None and digests[ro] is not None and epoch_at.get(ro) == fit_epoch[s]:
                    run.count("probe:evaluation-repeated-later")
                    if digests[ro] != results[0]:
                        between = [(o["op"], o.get("slot")) for o in scen["ops"][ro + 1 : k]]
                        run.violate("I3-not-repeatable-later", f"{op['op']}", {"slot": s, "kind": slot.spec["kind"], "transformed": bool(slot.spec.get("transformed")), "first_at": ro, "again_at": k, "operations_between": between, "step": k})
                        return digests
                if len(results) == 2 and results[0] != results[1]:
                    run.violate("I3-not-repeatable", f"{op['op']}", {"slot": s, "kind": slot.spec["kind"], "transformed": bool(slot.spec.get("transformed")), "step": k})
                    return digests
                # I1: purity - every slot's snapshot unchanged
                for j, other in slots.items():
                    allnames = snapshot(other.model, None)[1]["__names__"]
                    cache_names[j] |= {nm for nm in allnames - base_names[j] if nm.rsplit(".", 1)[-1].startswith("_")}
                    tree, caches = snapshot(other.model, base_names[j])
                    if tree != snaps[j][0]:
                        run.violate("I1-evaluation-changes-model", f"{op['op']}" + ("" if j == s else "/other-model"), {"evaluated_slot": s, "changed_slot": j, "kind": other.spec["kind"], "where": first_diff(snaps[j][0], tree), "step": k})
                        return digests
                    for cp, cv in caches.items():
                        if cp == "__names__":
                            continue
                        old = snaps[j][1].get(cp)
                        if old is not None and cv != old:
                            run.violate("I1-cache-rewritten", f"{op['op']}", {"slot": j, "cache": cp, "step": k})
                            return digests
                    snaps[j] = (tree, caches)
                if module_globals() != glob0:
                    run.violate("I1-module-globals-changed", f"{op['op']}", {"step": k})
                    return digests
                ps = process_state()
                if ps != proc0:
                    changed = [kk for kk in ps if ps[kk] != proc0[kk]]
                    detail = {"step": k, "raised": type(exc).__name__ if exc is not None else None}
                    if "warnings.filters" in changed:
                        detail["filters_added"] = [f for f in ps["warnings.filters"] if f not in proc0["warnings.filters"]][:4]
                    run.violate("I1-process-state-changed", f"{op['op']}/" + "+".join(changed), detail)
                    return digests
    finally:
        plt.close("all")
        shutil.rmtree(root, ignore_errors=True)
    return digests


def arrays_reachable(obj):
    """every ndarray reachable from obj through attributes, containers and partials"""
    out, seen = [], set()

    def walk(o):
        if o is None or isinstance(o, (bool, int, float, str, bytes, np.integer, np.floating, types.FunctionType, types.BuiltinFunctionType, type, types.ModuleType)):
            return
        if id(o) in seen:
            return
        seen.add(id(o))
        if isinstance(o, np.ndarray):
            out.append(o)
            return
        if isinstance(o, functools.partial):
            walk(o.args)
            walk(o.keywords)
            return
        if isinstance(o, dict):
            for v in o.values():
                walk(v)
            return
        if isinstance(o, (list, tuple, set)):
            for v in o:
                walk(v)
            return
        d = getattr(o, "__dict__", None)
        if d is not None:
            for v in d.values():
                walk(v)

    walk(obj)
    return out


def shared_mutables(a, b):
    """ids of mutable objects reachable from both a and b (functions, modules, classes exempt)"""

    def ids(o, acc, seen):
        if o is None or isinstance(o, (bool, int, float, str, bytes, np.integer, np.floating, types.FunctionType, types.BuiltinFunctionType, type, types.ModuleType)):
            return
        if id(o) in seen:
            return
        seen.add(id(o))
        if isinstance(o, tuple):
            for v in o:
                ids(v, acc, seen)
            return
        acc[id(o)] = type(o).__name__
        if isinstance(o, functools.partial):
            ids(o.args, acc, seen)
            ids(o.keywords, acc, seen)
            return
        if isinstance(o, dict):
            for k, v in o.items():
                ids(v, acc, seen)
            return
        if isinstance(o, (list, set)):
            for v in o:
                ids(v, acc, seen)
            return
        if isinstance(o, np.ndarray):
            return
        d = getattr(o, "__dict__", None)
        if d is not None:
            ids(d, acc, seen)

    A, B = {}, {}
    ids(a, A, set())
    ids(b, B, set())
    return {k: A[k] for k in A if k in B}


def execute(prop, scen):
    run = core.Run(prop, scen)
    run.signature = core.digest([[(s["kind"], bool(s.get("transformed"))) for s in scen["slots"]], [(o["op"], o.get("slot"), o.get("fail_at")) for o in scen["ops"]]])
    with seams.recorded_warnings():
        # I5: static sharing between two calls of every getter used in this run
        for kind in sorted({s["kind"] for s in scen["slots"] if s["kind"] in KINDS}):
            a, b = models.predefined(kind), models.predefined(kind)
            sh = shared_mutables(a, b)
            run.count("getter_pairs_checked")
            if sh:
                run.violate("I5-getter-calls-share-mutable-object", kind, {"shared_types": sorted(set(sh.values()))[:5], "count": len(sh)})
                return run
        # I4 reference runs first, each in a forked child: every slot's operations alone, starting from
        # exactly the process state the interleaved run starts from (class attributes, module globals)
        alone_by_slot = {}
        try:
            for s in range(len(scen["slots"])):
                if any(o.get("slot") == s for o in scen["ops"]):
                    alone_by_slot[s] = core.run_forked(execute_universe, scen, s, None)
            full = execute_universe(scen, None, run)
        except RuntimeError as e:
            if "Failed to fit" in str(e) or "too few intervals" in str(e):
                run.inconclusive = f"workload: model could not be fitted at creation ({str(e)[:60]})"
                return run
            # A model built from a fresh description could not be created / fitted for a reason other than
            # its data: on the unchanged tree this never happens; it does when something an earlier
            # model (possibly of an earlier run in this process) did has leaked into shared state.
            run.violate("I5-fresh-model-cannot-be-created", "creation", {"exc": str(e)[-400:]})
            return run
        if run.violations:
            return run
        # I4: projection equivalence
        for s in range(len(scen["slots"])):
            if s not in alone_by_slot:
                continue
            alone = alone_by_slot[s]
            for k, op in enumerate(scen["ops"]):
                if op.get("slot") == s:
                    run.count("projection_comparisons")
                    if alone[k] != full[k]:
                        run.violate("I4-projection-equivalence", f"{op['op']}", {"slot": s, "kind": scen["slots"][s]["kind"], "step": k, "interleaved": full[k], "alone": alone[k], "ops_before": [(o["op"], o.get("slot")) for o in scen["ops"][:k]]})
                        return run
    return run


def _drop_op(scen, i):
    c = copy.deepcopy(scen)
    del c["ops"][i]
    out = []
    for o in c["ops"]:
        ro = o.get("repeat_of")
        if ro is not None:
            if ro == i:
                o = {k_: v_ for k_, v_ in o.items() if k_ != "repeat_of"}
            elif ro > i:
                o = dict(o, repeat_of=ro - 1)
        out.append(o)
    c["ops"] = out
    return c


def shrink_candidates(prop, scen):
    ops = scen["ops"]
    for i in range(len(ops)):
        if len(ops) > 1:
            yield _drop_op(scen, i)
    used = sorted({o["slot"] for o in ops if "slot" in o})
    if len(used) < len(scen["slots"]) and used:
        c = copy.deepcopy(scen)
        c["slots"] = [scen["slots"][i] for i in used]
        for o in c["ops"]:
            if "slot" in o:
                o["slot"] = used.index(o["slot"])
        yield c
    for i, o in enumerate(ops):
        if o["op"] == "fit" and o.get("fail_at") is not None:
            c = copy.deepcopy(scen)
            c["ops"][i]["fail_at"] = None
            yield c
    for i, s in enumerate(scen["slots"]):
        if s.get("transformed"):
            c = copy.deepcopy(scen)
            c["slots"][i]["transformed"] = False
            for o in c["ops"]:
                if o.get("slot") == i and o["op"].startswith("t_"):
                    o["op"] = "pdf"
            yield c


def describe(prop):
    return {
        "rule": (
            "one run = 2-4 live models (fresh predefined getter calls, possibly the same getter twice, EW getters optionally wrapped in a TransformedModel; or seeded direct 2-D/3-D models), "
            "each fitted at creation to a seeded sub-sample, and a seeded schedule of 3-6 (thorough: up to 12) operations over all slots: 29 kinds of evaluation / contour / plot / save / slice ops, "
            "FIT with other data (optionally with an injected optimiser failure) and global-RNG skews; every evaluation runs twice under the same pinned RNG state; every slot's operations are then re-run alone in a fresh universe. "
            "distinct = distinct (slot kinds, op sequence with slots and fault positions); non-trivial = every run that is not inconclusive."
        ),
        "real": ["all public evaluation entry points of GlobalHierarchicalModel / TransformedModel", "all six contour classes", "calculate_design_conditions", "all plot functions (matplotlib Agg)", "save_contour_coordinates", "interval slicers", "GlobalHierarchicalModel.fit / TransformedModel.fit", "the six predefined getters"],
        "stub": ["OptimiserShim (counting wrapper raising the real exception type at a planned invocation)", "per-step re-seeding of NumPy's global RNG (slot-local index)"],
        "assumptions": [
            "the snapshot walks __dict__ of every object reachable from the model (partials, dicts, lists), floats by hex, arrays by digest; TransformedModel._sample is a cache allowed to go None -> array once",
            "unseeded operations may depend on the global RNG state only, which the simulator pins per step (slot-local), so repeatability and projection equivalence are decidable",
            "no array reachable from a model may share memory with an array passed to an evaluation; warnings filters, numpy error state / print options and the working directory are compared after every operation; an evaluation that was given a seed or involves no sampling must leave NumPy's global legacy RNG untouched (marginal_icdf, And/Or contours and the quantile plot are exempt: Monte-Carlo inside, no seed parameter)",
        ],
        "probes": ["fit-between-evaluations", "evaluation-repeated-later", "caller-edited-filled-fit-description", "deep-copy-checked-after-a-fit", "caller-arrays-checked-for-aliasing"],
    }
