"""C11 - fixed parameters honoured at construction, in evaluation and through any fit history.

System under simulation: one stateful distribution object (every family incl.
VonMises, LogNormalNormFit and two ScipyDistribution subclasses) with a
non-empty proper subset of its parameters fixed, or a ConditionalDistribution
whose template has fixed and dependent parameters, taken through a *history*
  construct -> (FIT | FIT-rejected-data (fault F2) | EVAL)* .
Invariants are checked after every step.
"""

import copy
import itertools
import math

import numpy as np
import scipy.stats as sts

from sim import core, seams
from engines.fit_c14 import make_func

NAME = "fit"

# family -> (parameter names, scipy frozen-from-params, admissible truth ranges, default start (ctor defaults))
FAM = {
    "Weibull": (["alpha", "beta", "gamma"], {"alpha": (0.8, 4), "beta": (0.9, 3), "gamma": (0.0, 1.5)}, {"alpha": 1, "beta": 1, "gamma": 0}),
    "LogNormal": (["mu", "sigma"], {"mu": (-0.5, 2), "sigma": (0.15, 0.8)}, {"mu": 0, "sigma": 1}),
    "Normal": (["mu", "sigma"], {"mu": (-3, 6), "sigma": (0.4, 3)}, {"mu": 0, "sigma": 1}),
    "LogNormalNormFit": (["mu_norm", "sigma_norm"], {"mu_norm": (1.5, 8), "sigma_norm": (0.4, 2.5)}, {"mu_norm": 0, "sigma_norm": 1}),
    "ExpWeibull": (["alpha", "beta", "delta"], {"alpha": (0.8, 4), "beta": (0.9, 2.5), "delta": (0.7, 4)}, {"alpha": 1, "beta": 1, "delta": 1}),
    "GenGamma": (["m", "c", "lambda_"], {"m": (1.2, 4), "c": (0.8, 2.5), "lambda_": (0.3, 2)}, {"m": 1, "c": 1, "lambda_": 1}),
    "VonMises": (["kappa", "mu"], {"kappa": (0.6, 6), "mu": (-6.0, 6.0)}, {"kappa": 1, "mu": 0}),
    "ScipyGamma": (["a", "loc", "scale"], {"a": (1.2, 5), "loc": (0.0, 1.0), "scale": (0.5, 3)}, {"a": 1, "loc": 0, "scale": 1}),
    "ScipyGumbel": (["loc", "scale"], {"loc": (-2, 5), "scale": (0.5, 3)}, {"loc": 0, "scale": 1}),
}
FAMS = list(FAM)


def fam_class(name):
    import virocon.distributions as vd

    cache = fam_class.__dict__.setdefault("cache", {})
    if name in cache:
        return cache[name]
    if name == "ScipyGamma":

        class ScipyGamma(vd.ScipyDistribution):
            scipy_dist_name = "gamma"

        cls = ScipyGamma
    elif name == "ScipyGumbel":

        class ScipyGumbel(vd.ScipyDistribution):
            scipy_dist = sts.gumbel_r

        cls = ScipyGumbel
    else:
        cls = {
            "Weibull": vd.WeibullDistribution,
            "LogNormal": vd.LogNormalDistribution,
            "Normal": vd.NormalDistribution,
            "LogNormalNormFit": vd.LogNormalNormFitDistribution,
            "ExpWeibull": vd.ExponentiatedWeibullDistribution,
            "GenGamma": vd.GeneralizedGammaDistribution,
            "VonMises": vd.VonMisesDistribution,
        }[name]
    cache[name] = cls
    return cls


def ref_frozen(fam, p):
    """The family's law written down independently of virocon (scipy frozen)."""
    if fam == "Weibull":
        return sts.weibull_min(p["beta"], loc=p["gamma"], scale=p["alpha"])
    if fam == "LogNormal":
        return sts.lognorm(p["sigma"], scale=math.exp(p["mu"]))
    if fam == "Normal":
        return sts.norm(loc=p["mu"], scale=p["sigma"])
    if fam == "LogNormalNormFit":
        mu = math.log(p["mu_norm"] / math.sqrt(1 + p["sigma_norm"] ** 2 / p["mu_norm"] ** 2))
        sg = math.sqrt(math.log(1 + p["sigma_norm"] ** 2 / p["mu_norm"] ** 2))
        return sts.lognorm(sg, scale=math.exp(mu))
    if fam == "ExpWeibull":
        return sts.exponweib(p["delta"], p["beta"], scale=p["alpha"])
    if fam == "GenGamma":
        return sts.gengamma(p["m"], p["c"], scale=1.0 / p["lambda_"])
    if fam == "VonMises":
        return sts.vonmises(p["kappa"], loc=p["mu"])
    if fam == "ScipyGamma":
        return sts.gamma(p["a"], loc=p["loc"], scale=p["scale"])
    if fam == "ScipyGumbel":
        return sts.gumbel_r(loc=p["loc"], scale=p["scale"])
    raise ValueError(fam)


def draw(fam, p, n, seed):
    u = np.random.default_rng(seed).uniform(0.002, 0.998, size=n)
    return np.asarray(ref_frozen(fam, p).ppf(u), dtype=float)


def tier_config(prop, tier):
    if tier == "quick":
        return {"runs": 1800, "chunk": 30, "cap_s": 120, "det_seeds": 8}
    return {"budget_s": 900, "chunk": 30, "cap_s": 120, "det_seeds": 48, "grace_s": 900}


def proper_subsets(names):
    out = []
    for k in range(1, len(names)):
        out += [list(c) for c in itertools.combinations(names, k)]
    return out


def _combos():
    out = []
    for fam in FAMS:
        for sub in proper_subsets(FAM[fam][0]):
            out.append((fam, sub))
    return out


COMBOS = _combos()


def generate(prop, seed, tier):
    S = core.SeedStream(seed)
    idx = seed & ((1 << 20) - 1)
    conditional = S.chance(0.3)
    # the (family, fixed subset) grid is walked systematically, everything else is seeded
    fam, fixed_names = COMBOS[idx % len(COMBOS)]
    names, ranges, _ = FAM[fam]
    truth = {p: core.r6(S.uni(*ranges[p])) for p in names}
    if S.chance(0.15):
        # integer-valued fixed values (as in the predefined models: f_delta=5, f_gamma=0)
        for p in fixed_names:
            truth[p] = float(round(truth[p])) if round(truth[p]) >= ranges[p][0] else truth[p]
    # falsy-but-legal fixed values: exactly 0 (int or float) where the family admits it, together
    # with an ordinary (ignored) plain value for the same parameter
    zero_ok = [p for p in fixed_names if ranges[p][0] <= 0 <= ranges[p][1]]
    force_plain = None
    if zero_ok and S.chance(0.25):
        force_plain = S.pick(zero_ok)
        truth[force_plain] = 0 if S.chance(0.5) else 0.0
    fixed = {p: truth[p] for p in fixed_names}
    # constructor also receives (ignored) plain values for fixed names sometimes
    ctor_plain = {}
    if S.chance(0.3):
        for p in names:
            if S.chance(0.5):
                ctor_plain[p] = core.r6(S.uni(*ranges[p]))
    if force_plain is not None:
        ctor_plain[force_plain] = core.r6(S.uni(max(ranges[force_plain][0], 0.2), ranges[force_plain][1]))
    scen = {"engine": NAME, "property": prop, "seed": seed, "family": fam, "fixed": fixed, "ctor_plain": ctor_plain, "truth": truth, "conditional": conditional, "ops": []}
    n_ops = S.int(2, 6)
    lsq_ok = fam == "ExpWeibull" and fixed_names == ["delta"]
    for k in range(n_ops):
        kind = S.wpick([("fit", 5), ("eval", 3), ("fit_bad", 1.2), ("fit_other", 1.5), ("clone", 0.6)])
        if kind == "clone":
            scen["ops"].append({"op": "clone"})
            continue
        if kind == "eval":
            scen["ops"].append({"op": "eval", "pseed": S.sub("e", k), "n": S.int(3, 9)})
            continue
        n = S.pick([40, 120, 400, 1000])
        op = {"op": "fit", "n": n, "dseed": S.sub("d", k), "method": "mle", "weights": None, "source": "family", "container": S.wpick([("ndarray", 4), ("list", 1), ("series", 1)])}
        if lsq_ok and S.chance(0.5):
            op["method"] = S.pick(["lsq", "wlsq", "WLSQ"])
            op["weights"] = S.pick(["linear", "quadratic", "cubic", "array:linear", "list:quadratic"])
            op["with_zero"] = S.chance(0.3)  # a calm-sea record: an observation of exactly 0
        elif fam == "ExpWeibull" and not lsq_ok and S.chance(0.3):
            # least squares with another fixed subset: the class refuses it (NotImplementedError by
            # design); either it keeps refusing, or - if it ever computes something - the fixed
            # values are still what was declared
            op["method"] = S.pick(["lsq", "wlsq"])
            op["weights"] = S.pick(["linear", "quadratic", "cubic"])
            op["maybe_refused"] = True
        elif S.chance(0.15):
            op["method"] = "MLE"
        if kind == "fit_other":
            op["source"] = "scaled"  # same family, truth moved away (x1.5 / shifted)
            op["factor"] = core.r6(S.uni(1.3, 2.2))
            if S.chance(0.4):
                # the data do not follow the declared fixed values either (a deliberately different
                # fixed value): the free parameters are still the estimates *given* the fixed ones
                op["source"] = "misfixed"
        if kind == "fit_bad":
            op["source"] = "rejected"  # F2: data the estimator rejects
            op["reject_how"] = S.pick(["negative", "negative", "nan", "inf"])
        scen["ops"].append(op)
    # bystanders: other live distribution objects of the same (or a sibling) class with a different
    # fixed specification, constructed / fitted at seeded points of the history (state shared
    # between instances shows only then)
    if S.chance(0.5):
        for b in range(S.int(1, 2)):
            fam2 = fam
            if fam.startswith("Scipy") and S.chance(0.4):
                fam2 = "ScipyGumbel" if fam == "ScipyGamma" else "ScipyGamma"
            names2, ranges2, _ = FAM[fam2]
            subs = [x for x in proper_subsets(names2) if x != fixed_names or fam2 != fam] or proper_subsets(names2)
            sub2 = S.pick(subs)
            other = {"op": "other", "family": fam2, "fixed": {p: core.r6(S.uni(*ranges2[p])) for p in sub2}, "fit": S.chance(0.5), "dseed": S.sub("o", b), "n": 120}
            scen["ops"].insert(S.int(0, len(scen["ops"])), other)
    if not any(o["op"] == "fit" and o["source"] != "rejected" for o in scen["ops"]):
        scen["ops"].append({"op": "fit", "n": 400, "dseed": S.sub("d", 99), "method": "mle", "weights": None, "source": "family"})
    scen["ops"].append({"op": "eval", "pseed": S.sub("e", 99), "n": 5})
    if conditional:
        scen["cond"] = {"n_intervals": S.int(3, 5), "slope": core.r6(S.uni(0.02, 0.15))}
    return scen


# --------------------------------------------------------------------------


def _rel_eq(a, b, tol=1e-12):
    a, b = float(a), float(b)
    return abs(a - b) <= tol * max(1.0, abs(a), abs(b))


def _ctor(scen):
    cls = fam_class(scen["family"])
    kw = dict(scen["ctor_plain"])
    for p, v in scen["fixed"].items():
        kw["f_" + p] = v
    return cls(**kw)


def _fresh_with(scen, params):
    cls = fam_class(scen["family"])
    return cls(**{p: float(v) for p, v in params.items()})


def _eval_points(scen, params, pseed, n):
    rng = np.random.default_rng(pseed)
    try:
        fz = ref_frozen(scen["family"], {k: float(v) for k, v in params.items()})
        lo, hi = fz.ppf(0.02), fz.ppf(0.98)
    except Exception:
        lo, hi = 0.1, 5.0
    if not (math.isfinite(lo) and math.isfinite(hi) and hi > lo):
        lo, hi = 0.1, 5.0
    return np.sort(rng.uniform(lo, hi, size=n)), np.sort(rng.uniform(0.02, 0.98, size=n))


REJECTING = {"LogNormal", "ExpWeibull", "GenGamma", "ScipyGamma"}  # positive-support estimators


def _data(scen, op):
    fam = scen["family"]
    truth = dict(scen["truth"])
    if op["source"] == "scaled":
        # move the free parameters away from the truth (and from the start values)
        for p in FAM[fam][0]:
            if p not in scen["fixed"]:
                lo, hi = FAM[fam][1][p]
                truth[p] = min(max(truth[p] * op["factor"], lo), hi * 2) if truth[p] > 0 else truth[p] - op["factor"]
    if op["source"] == "misfixed":
        for p in FAM[fam][0]:
            lo, hi = FAM[fam][1][p]
            f = op["factor"] if p not in scen["fixed"] else 1.0 / (0.5 + 0.5 * op["factor"])
            truth[p] = min(max(truth[p] * f, lo), hi * 2) if truth[p] > 0 else truth[p] - (f if p not in scen["fixed"] else 0.3 * f)
    x = draw(fam, truth, op["n"], op["dseed"])
    if op.get("with_zero"):
        x = x.copy()
        x[len(x) // 2] = 0.0
    if op["source"] == "rejected":
        how = op.get("reject_how", "negative")
        if how == "negative":
            x = -np.abs(x) - 1.0  # negative values into a positive-support family -> scipy FitDataError
        else:
            x = x.copy()
            x[len(x) // 3] = np.nan if how == "nan" else np.inf  # a gap marker left in the measurements
    return x


# Judged only where the class's estimator is a maximum-likelihood estimator with a bounded, smooth
# likelihood.  Calibration on the repaired tree (6 000 runs): for Normal, LogNormal, von Mises and the
# scipy-backed Gumbel no perturbation ever raised the log-likelihood at all; the three-parameter
# families have unbounded likelihoods (gains of 1e17 ... 1e64 next to the location / for small shapes),
# LogNormalNormFit estimates by moments (gains up to 78) and the gamma with free location up to 0.5 -
# those are not judged.  Tolerance: 1e-5 per observation.
def _ll_gain(fam, cur, free, data):
    """largest increase of the log-likelihood by a +-0.2 % / +-2 % change of one free parameter
    (None if the log-likelihood cannot be evaluated at the current parameters)"""

    def ll(pv):
        try:
            with np.errstate(all="ignore"):
                v = float(np.sum(ref_frozen(fam, pv).logpdf(data)))
        except Exception:  # noqa: BLE001
            return None
        return v if math.isfinite(v) else None

    l0 = ll(cur)
    if l0 is None:
        return None
    best = 0.0
    for p in free:
        for rel in (0.002, -0.002, 0.02, -0.02):
            q = dict(cur)
            q[p] = cur[p] + rel * (abs(cur[p]) + 1e-3)
            l1 = ll(q)
            if l1 is not None:
                best = max(best, l1 - l0)
    return best


TOL_I6 = {"Normal": 1e-5, "LogNormal": 1e-5, "VonMises": 1e-5, "ScipyGumbel": 1e-5}


def check_mle_optimal(run, scen, dist, data, step, op):
    """I6: "the non-fixed parameters are estimated" - by maximum likelihood *given* the fixed values:
    no nearby admissible change of a free parameter may raise the log-likelihood (harness's own
    statement of the family's density) by more than the estimator's tolerance."""
    import os

    fam = scen["family"]
    if fam not in TOL_I6 and not os.environ.get("VERIF_CALIB"):
        return False
    cur = {k: float(v) for k, v in dist.parameters.items()}
    free = [p for p in cur if p not in scen["fixed"]]

    def ll(pv):
        try:
            with np.errstate(all="ignore"):
                v = float(np.sum(ref_frozen(fam, pv).logpdf(data)))
        except Exception:  # noqa: BLE001
            return None
        return v if math.isfinite(v) else None

    l0 = ll(cur)
    if l0 is None:
        return False
    worst = (0.0, None, None)
    for p in free:
        for rel in (0.002, -0.002, 0.02, -0.02):
            q = dict(cur)
            q[p] = cur[p] + rel * (abs(cur[p]) + 1e-3)
            l1 = ll(q)
            if l1 is not None and l1 - l0 > worst[0]:
                worst = (l1 - l0, p, rel)
    run.count("i6_mle_optimality_checks")
    if os.environ.get("VERIF_CALIB") and worst[0] > 0:
        with open(f"{os.environ['VERIF_CALIB']}.{os.getpid()}", "a") as f:
            f.write(f"i6 {fam} {'+'.join(sorted(scen['fixed']))} {op['source']} {len(data)} {worst[0]:.4e} {worst[0] / len(data):.4e} {worst[1]} {worst[2]}\n")
    if fam in TOL_I6 and worst[0] > TOL_I6[fam] * len(data):
        run.violate("I6-free-parameters-not-the-mle-given-the-fixed-ones", f"{fam}/{'+'.join(sorted(scen['fixed']))}", {"params": cur, "log_likelihood": l0, "gain": worst[0], "by_changing": worst[1], "relative_change": worst[2], "n": len(data), "source": op["source"], "step": step})
        return True
    return False


def check_state(run, scen, dist, where, step):
    """I1 + I3 on the current state."""
    fam = scen["family"]
    params = dist.parameters
    for p, v in scen["fixed"].items():
        cur = params.get(p)
        if cur is None or not _rel_eq(cur, v):
            run.violate("I1-fixed-value-retained", f"{fam}/{p}/{where}", {"param": p, "declared": v, "current": cur, "step": step})
            return False
        fa = getattr(dist, "f_" + p, None)
        if fa is None or not _rel_eq(fa, v):
            run.violate("I1-fixed-attribute", f"{fam}/{p}/{where}", {"param": p, "declared": v, "f_attr": fa, "step": step})
            return False
    return True


def check_eval(run, scen, dist, op, step):
    """I3: evaluation equals the family's law at the *current parameter values*
    (which contain the fixed values), written down independently via scipy."""
    fam = scen["family"]
    params = {k: float(v) for k, v in dist.parameters.items()}
    xs, ps = _eval_points(scen, params, op["pseed"], op["n"])
    try:
        fz = ref_frozen(fam, params)
        if not np.all(np.isfinite(fz.cdf(xs))):
            raise ValueError("inadmissible")
    except Exception:
        run.count("eval_skipped_inadmissible_parameters")  # e.g. mu_norm = 0 before the first fit
        return
    with np.errstate(all="ignore"):
        got = {"cdf": np.asarray(dist.cdf(xs), dtype=float), "pdf": np.asarray(dist.pdf(xs), dtype=float), "icdf": np.asarray(dist.icdf(ps), dtype=float)}
        want = {"cdf": fz.cdf(xs), "pdf": fz.pdf(xs), "icdf": fz.ppf(ps)}
    for k in got:
        run.count("eval_comparisons")
        ok = np.allclose(got[k], want[k], rtol=1e-9, atol=1e-12, equal_nan=True)
        if not ok:
            run.violate("I3-evaluation-uses-parameters", f"{fam}/{k}", {"method": k, "params": params, "fixed": scen["fixed"], "got": got[k][:4], "want": want[k][:4], "step": step})
            return


def _do_other(run, scen, op, others):
    """construct (and maybe fit) a bystander object; it must itself honour its fixed values"""
    cls = fam_class(op["family"])
    obj = cls(**{"f_" + p: v for p, v in op["fixed"].items()})
    others.append((op, obj))
    run.count("probe:bystander-object-alive")
    if op["fit"]:
        truth = {p: (op["fixed"][p] if p in op["fixed"] else sum(FAM[op["family"]][1][p]) / 2) for p in FAM[op["family"]][0]}
        try:
            obj.fit(draw(op["family"], truth, op["n"], op["dseed"]))
        except Exception:  # noqa: BLE001
            return
    for o2, ob in others:
        for p, v in o2["fixed"].items():
            if not _rel_eq(ob.parameters[p], v):
                run.violate("I1-fixed-value-retained", f"{o2['family']}/{p}/bystander-object", {"param": p, "declared": v, "current": float(ob.parameters[p])})
                return


def execute(prop, scen):
    if scen.get("conditional"):
        return execute_conditional(prop, scen)
    run = core.Run(prop, scen)
    fam = scen["family"]
    run.signature = core.digest([fam, sorted(scen["fixed"]), [(o["op"], o.get("method"), o.get("source"), o.get("family")) for o in scen["ops"]], False])
    with seams.recorded_warnings():
        dist = _ctor(scen)
        run.event("construct", [fam, scen["fixed"], scen["ctor_plain"]], dist.parameters)
        if not check_state(run, scen, dist, "construction", 0):
            return run
        failed_before = False
        others = []
        for si, op in enumerate(scen["ops"], start=1):
            if op["op"] == "other":
                _do_other(run, scen, op, others)
                run.event("other", [op["family"], op["fixed"], op["fit"]], None)
                if run.violations or not check_state(run, scen, dist, "after-bystander", si):
                    return run
                continue
            if op["op"] == "eval":
                check_eval(run, scen, dist, op, si)
                run.event("eval", op, None)
                if run.violations:
                    return run
                continue
            if op["op"] == "clone":
                dist = copy.deepcopy(dist)  # the user continues with a deep copy
                run.count("probe:continued-on-deep-copy")
                run.event("clone", None, dict(dist.parameters))
                if not check_state(run, scen, dist, "after-deepcopy", si):
                    return run
                continue
            data = _data(scen, op)
            if op.get("container") == "list":
                data = data.tolist()
            elif op.get("container") == "series":
                import pandas as pd

                data = pd.Series(data)
            before = dict(dist.parameters)
            data_before = np.array(data, dtype=float, copy=True)
            exc = None
            seams.pin_global(core.h64(scen["seed"], si))
            w_arg = op["weights"]
            if isinstance(w_arg, str) and ":" in w_arg:
                # one weight per (sorted) observation, as an array or a list
                xs_ = np.sort(np.asarray(data, dtype=float))
                w_ = xs_ / xs_.sum() if w_arg.endswith("linear") else xs_**2 / np.sum(xs_**2)
                w_arg = w_ if w_arg.startswith("array") else w_.tolist()
            try:
                dist.fit(data, op["method"], w_arg)
            except Exception as e:  # noqa: BLE001
                exc = e
            run.event("fit", [op["method"], op["source"], op["n"]], [dict(dist.parameters), type(exc).__name__ if exc else None], ["F2"] if op["source"] == "rejected" else [])
            if not np.array_equal(np.asarray(data, dtype=float), data_before, equal_nan=True):
                # the observations are the caller's: the next fit (of this or another object) is given the same array
                run.violate("I7-fit-changes-the-callers-data", f"{fam}/{'+'.join(sorted(scen['fixed']))}/{op['method'].lower()}", {"container": op.get("container", "ndarray"), "max_abs_change": float(np.nanmax(np.abs(np.asarray(data, dtype=float) - data_before))), "step": si})
                return run
            where = "after-failed-fit" if exc is not None else ("after-refit" if failed_before else "after-fit")
            if op["source"] == "rejected":
                if exc is not None:
                    run.count("fault:F2-estimator-rejects-data")
                    failed_before = True
                else:
                    run.count("probe:rejected-data-accepted")
                if not check_state(run, scen, dist, where, si):
                    return run
                continue
            if op.get("maybe_refused") and isinstance(exc, NotImplementedError):
                run.count("probe:unsupported-lsq-subset-refused")
                if not check_state(run, scen, dist, "after-refused-fit", si):
                    return run
                continue
            if exc is not None:
                # I5: translating f_<name> into the estimator's keywords must work for every
                # supported subset/method; numerical failures are the workload's fault
                if isinstance(exc, (TypeError, AttributeError, KeyError, NotImplementedError, AssertionError, NameError)):
                    run.violate("I5-fit-with-fixed-subset-raises", f"{fam}/{'+'.join(sorted(scen['fixed']))}/{op['method'].lower()}", {"exc": repr(exc)[:300], "fixed": scen["fixed"], "method": op["method"], "step": si})
                    return run
                run.inconclusive = f"estimator failed numerically: {type(exc).__name__}"
                return run
            if not check_state(run, scen, dist, where, si):
                return run
            # I2: the free parameters are estimated (finite, and moved away from the start)
            after = dist.parameters
            free = [p for p in after if p not in scen["fixed"]]
            if not all(math.isfinite(float(after[p])) for p in free):
                run.violate("I2-free-parameters-finite", f"{fam}/{op['method'].lower()}", {"params": after, "step": si})
                return run
            if op["source"] in ("scaled", "misfixed") and all(float(after[p]) == float(before[p]) for p in free):
                # Unchanged to the last bit.  A re-fit with one free parameter may legitimately end where
                # it started (seen in the thorough tier: generalised gamma, m = 3.0626 after a first fit,
                # second sample of 40 points, the simplex search returning its start vertex): not
                # estimated means that moving the parameter would have paid off
                gain = _ll_gain(fam, {k_: float(v_) for k_, v_ in after.items()}, free, np.asarray(data, dtype=float)) if op["method"].lower() == "mle" else None
                if gain is None or gain > 1e-4 * len(data):
                    run.violate("I2-free-parameters-estimated", f"{fam}/{op['method'].lower()}", {"before": before, "after": after, "log_likelihood_gain_of_a_2_percent_change": gain, "step": si})
                    return run
                run.count("probe:refit-returned-its-start-values-which-are-near-optimal")
            if op["method"].lower() == "mle":
                bad = check_mle_optimal(run, scen, dist, np.asarray(data, dtype=float), si, op)
                if bad:
                    return run
            if failed_before:
                run.count("probe:clean-fit-after-failed-fit")
                failed_before = False
    return run


# --------------------------------------------------------------------------
# conditional wrapper
# --------------------------------------------------------------------------


def execute_conditional(prop, scen):
    """ConditionalDistribution whose template has the fixed parameters and whose
    free parameters are dependence functions (linear in the conditioning value)."""
    from virocon import DependenceFunction
    from virocon.distributions import ConditionalDistribution

    run = core.Run(prop, scen)
    fam = scen["family"]
    names = FAM[fam][0]
    free = [p for p in names if p not in scen["fixed"]]
    run.signature = core.digest([fam, sorted(scen["fixed"]), [(o["op"], o.get("method"), o.get("source"), o.get("family")) for o in scen["ops"]], True])
    slope = scen["cond"]["slope"]
    k = scen["cond"]["n_intervals"]
    centres = [1.0 + 1.5 * i for i in range(k)]
    with seams.recorded_warnings():
        tmpl = _ctor(scen)
        deps = {p: DependenceFunction(make_func("poly1", [1.0, 1.0])) for p in free}
        cond = ConditionalDistribution(tmpl, deps)
        run.event("construct", [fam, scen["fixed"]], None)
        for p, v in scen["fixed"].items():
            if p not in cond.fixed_parameters or not _rel_eq(cond.fixed_parameters[p], v):
                run.violate("I1-fixed-value-retained", f"{fam}/{p}/conditional-construction", {"param": p, "declared": v, "fixed_parameters": dict(cond.fixed_parameters)})
                return run
        fitted = False
        others = []
        for si, op in enumerate(scen["ops"], start=1):
            if op["op"] == "other":
                _do_other(run, scen, op, others)
                run.event("other", [op["family"], op["fixed"], op["fit"]], None)
                if run.violations:
                    return run
                continue
            if op["op"] == "clone":
                cond = copy.deepcopy(cond)
                tmpl = cond.distribution
                run.count("probe:continued-on-deep-copy")
                run.event("clone", None, None)
                continue
            if op["op"] == "eval":
                if not fitted:
                    continue
                # I4: at every conditioning value the evaluation equals the family's law with
                # {fixed value, dependence-function values at g}
                rng = np.random.default_rng(op["pseed"])
                # conditioning values as float, Python int, numpy integer (all legal "given" values)
                g_int = int(round(centres[1]))
                for g in [centres[0], float(rng.uniform(centres[0], centres[-1])), g_int, np.int64(g_int + 1)]:
                    pv = {p: float(scen["fixed"][p]) for p in scen["fixed"]}
                    for p in free:
                        pv[p] = float(cond.conditional_parameters[p](g))
                    try:
                        fz = ref_frozen(fam, pv)
                        xs = np.sort(rng.uniform(fz.ppf(0.05), fz.ppf(0.95), size=op["n"]))
                        want = fz.cdf(xs)
                        want_q = fz.ppf(np.array([0.1, 0.5, 0.9]))
                    except Exception:
                        continue
                    if not (np.all(np.isfinite(xs)) and np.all(np.isfinite(want))):
                        continue
                    with np.errstate(all="ignore"):
                        got = np.asarray(cond.cdf(xs, given=g), dtype=float)
                        got_q = np.asarray(cond.icdf(np.array([0.1, 0.5, 0.9]), given=g), dtype=float)
                    run.count("eval_comparisons", 2)
                    if not np.allclose(got, want, rtol=1e-9, atol=1e-12) or not np.allclose(got_q, want_q, rtol=1e-9, atol=1e-12):
                        run.violate("I4-conditional-uses-fixed-value", f"{fam}/{'+'.join(sorted(scen['fixed']))}", {"given": float(g), "given_type": type(g).__name__, "params_at_given": pv, "got": got[:4], "want": want[:4], "got_q": got_q, "want_q": want_q, "step": si})
                        return run
                    spread = want_q[2] - want_q[0]
                    if isinstance(g, float) and not (spread > 1e-9 * max(1.0, abs(want_q[0]), abs(want_q[2]))):
                        # dependence functions fitted to a handful of intervals can give a scale of 1e-33 at some
                        # conditioning value: every draw then rounds to the location, nothing to compare
                        run.count("conditional_sampling_not_judged_degenerate_parameters")
                    elif isinstance(g, float):
                        # sampling is an evaluation too: one draw for each of many (equal) conditioning values,
                        # as a joint sample asks for it, follows the same law (DKW at 1e-12)
                        n_s = 3000
                        try:
                            xs_ = np.asarray(cond.draw_sample(1, np.full(n_s, g), random_state=int(op["pseed"] % 100000)), dtype=float).reshape(-1)
                        except Exception as e:  # noqa: BLE001
                            run.violate("I4-conditional-sampling-raises", f"{fam}/{'+'.join(sorted(scen['fixed']))}", {"exc": repr(e)[:200], "given": float(g), "step": si})
                            return run
                        if len(xs_) == n_s and np.all(np.isfinite(xs_)):
                            if fam == "VonMises":
                                xs_ = pv["mu"] + (xs_ - pv["mu"] + math.pi) % (2 * math.pi) - math.pi
                            u_ = np.sort(np.asarray(fz.cdf(xs_), dtype=float))
                            i_ = np.arange(1, n_s + 1)
                            d_ = float(max(np.max(i_ / n_s - u_), np.max(u_ - (i_ - 1) / n_s)))
                            run.count("dkw_comparisons")
                            if d_ > math.sqrt(math.log(2.0 / 1e-12) / (2.0 * n_s)):
                                run.violate("I4-conditional-sample-uses-fixed-value", f"{fam}/{'+'.join(sorted(scen['fixed']))}", {"given": float(g), "sup_distance": d_, "params_at_given": pv, "step": si})
                                return run
                        else:
                            run.violate("I4-conditional-sample-uses-fixed-value", f"{fam}/{'+'.join(sorted(scen['fixed']))}/shape-or-finite", {"given": float(g), "size": int(len(xs_)), "step": si})
                            return run
                run.event("eval", op, None)
                continue
            # fit: intervals drawn from truth moving linearly with the conditioning value
            data = []
            for i, c in enumerate(centres):
                t = dict(scen["truth"])
                for p in free:
                    t[p] = t[p] * (1 + slope * c) if t[p] > 0 else t[p] + slope * c
                o2 = dict(op)
                o2["dseed"] = core.h64(op["dseed"], i) % (2**32)
                sc2 = dict(scen)
                sc2["truth"] = t
                data.append(_data(sc2, o2))
            exc = None
            try:
                cond.fit(data, centres, [(c - 0.75, c + 0.75) for c in centres], op["method"], op["weights"])
            except Exception as e:  # noqa: BLE001
                exc = e
            run.event("fit", [op["method"], op["source"]], [type(exc).__name__ if exc else None], ["F2"] if op["source"] == "rejected" else [])
            if op["source"] == "rejected":
                if exc is not None:
                    run.count("fault:F2-estimator-rejects-data")
            elif op.get("maybe_refused") and isinstance(exc, NotImplementedError):
                run.count("probe:unsupported-lsq-subset-refused")
            elif exc is not None:
                if isinstance(exc, (TypeError, AttributeError, KeyError, NotImplementedError, AssertionError, NameError)):
                    run.violate("I5-fit-with-fixed-subset-raises", f"{fam}/{'+'.join(sorted(scen['fixed']))}/{op['method'].lower()}", {"exc": repr(exc)[:300], "conditional": True, "step": si})
                    return run
                run.inconclusive = f"estimator failed numerically: {type(exc).__name__}"
                return run
            else:
                fitted = True
                # every per-interval estimate carries the fixed value, the template is untouched
                for pi, par in enumerate(cond.parameters_per_interval):
                    for p, v in scen["fixed"].items():
                        if not _rel_eq(par[p], v):
                            run.violate("I1-fixed-value-retained", f"{fam}/{p}/per-interval", {"interval": pi, "param": p, "declared": v, "estimate": par[p], "step": si})
                            return run
            for p, v in scen["fixed"].items():
                if not _rel_eq(cond.fixed_parameters.get(p, float("nan")), v) or not _rel_eq(tmpl.parameters[p], v):
                    run.violate("I1-fixed-value-retained", f"{fam}/{p}/conditional-after-fit", {"param": p, "declared": v, "fixed_parameters": dict(cond.fixed_parameters), "template": dict(tmpl.parameters), "step": si})
                    return run
    return run


def shrink_candidates(prop, scen):
    ops = scen["ops"]
    for i in range(len(ops)):
        if len(ops) > 1:
            c = copy.deepcopy(scen)
            del c["ops"][i]
            yield c
    if scen["ctor_plain"]:
        c = copy.deepcopy(scen)
        c["ctor_plain"] = {}
        yield c
    if scen.get("conditional"):
        c = copy.deepcopy(scen)
        c["conditional"] = False
        yield c
    for i, o in enumerate(ops):
        if o["op"] == "fit" and o.get("n", 0) > 120:
            c = copy.deepcopy(scen)
            c["ops"][i]["n"] = 120
            yield c
        if o["op"] == "fit" and o["source"] == "scaled":
            c = copy.deepcopy(scen)
            c["ops"][i]["source"] = "family"
            yield c


def describe(prop):
    return {
        "rule": (
            f"one run = one history construct -> (fit | fit with estimator-rejected data | evaluate)* on one distribution object or ConditionalDistribution; the "
            f"(family, fixed subset) grid of {len(COMBOS)} combinations (9 families, every non-empty proper subset) is walked by run index, "
            "everything else (values, data, methods, history) is seeded. distinct = distinct (family, fixed subset, op-kind sequence with method and data source, conditional?); "
            "non-trivial = at least one successful fit with a fixed parameter was checked (not inconclusive)."
        ),
        "real": ["all virocon distribution classes incl. ScipyDistribution subclasses", "ConditionalDistribution", "DependenceFunction", "scipy estimators"],
        "stub": ["none; data are drawn by the harness through scipy ppf from the family's ground truth"],
        "assumptions": [
            "the family's law is written down independently with scipy.stats frozen distributions (reference model for evaluation)",
            "a fit that raises TypeError/AttributeError/KeyError/NotImplementedError/AssertionError for a supported (subset, method) pair is a violation; numerical estimator failures are inconclusive",
            "least squares is 'supported' only for the exponentiated Weibull with delta fixed (the class raises NotImplementedError otherwise by design)",
            'I6 (free parameters are the maximum-likelihood estimates given the fixed ones, 1e-5 per observation for a 0.2 % / 2 % change) is judged for Normal, LogNormal, von Mises and scipy-backed Gumbel only: the three-parameter families have unbounded likelihoods, LogNormalNormFit estimates by moments',
            "conditional sampling (3000 equal conditioning values) is judged by DKW at 1e-12 against the family's law at {fixed value, dependence values}",
        ],
        "probes": ["clean-fit-after-failed-fit", "rejected-data-accepted", "bystander-object-alive", "continued-on-deep-copy", "unsupported-lsq-subset-refused", "refit-returned-its-start-values-which-are-near-optimal"],
    }
