"""C07 - samples follow the model they are drawn from and are reproducible by seed.

System under simulation: 1-3 live sampling objects (every distribution family;
2-D / 3-D GlobalHierarchicalModels with every admissible dependence structure
and every family as conditional template) and a pool of simulator-owned
numpy Generators, some shared between objects.  A schedule interleaves DRAW
operations (random_state None / int / Generator, n = 1 .. 1e5, rarely 1e6) with
F3 faults (NumPy's global legacy RNG re-seeded / advanced between steps).  The
whole schedule is executed twice (pass A, pass B) with identically seeded
Generators but different global-RNG skews.
"""

import copy
import math

import numpy as np

from sim import core, seams
from engines.fit_c11 import FAM, fam_class, ref_frozen

NAME = "rng"

DELTA = 1e-12  # error probability per statistical comparison


def eps_dkw(n, delta=DELTA):
    return math.sqrt(math.log(2.0 / delta) / (2.0 * n))


def tier_config(prop, tier):
    if tier == "quick":
        return {"runs": 3000, "chunk": 20, "cap_s": 300, "det_seeds": 6, "shrink_budget": 80}
    return {"budget_s": 1200, "chunk": 8, "cap_s": 600, "det_seeds": 32, "shrink_budget": 120, "grace_s": 1500}


def const1(x, a):
    return a


def const0d(x, a):
    return np.asarray(a, dtype=float)  # a constant that comes as a 0-d array (np.where, values read from a file)


def logi2(x, a, b):
    return a + b / (1 + np.exp(-np.asarray(x, dtype=float) / 3.0))


SCALE_PARAMS = {"Weibull": ["alpha"], "LogNormal": [], "Normal": ["sigma"], "LogNormalNormFit": [], "ExpWeibull": ["alpha"], "GenGamma": [], "VonMises": [], "ScipyGamma": ["scale"], "ScipyGumbel": ["scale"]}
POSITIVE = {"Weibull": None, "LogNormal": 0.0, "LogNormalNormFit": 0.0, "ExpWeibull": 0.0, "GenGamma": 0.0}
STRUCTS = {2: [[None, 0], [None, None]], 3: [[None, 0, 0], [None, 0, 1], [None, None, 0], [None, None, 1], [None, 0, None]]}


def _gen_params(S, fam, wide=True):
    names, ranges, _ = FAM[fam]
    p = {k: core.r6(S.uni(*ranges[k])) for k in names}
    if fam == "ExpWeibull" and S.chance(0.2):
        # small but legal exponent: the mass sits many orders of magnitude below the scale, where a
        # sampler must not lose precision (log1p / expm1 regime)
        p["delta"] = core.r6(S.uni(0.05, 0.1))
    if wide and S.chance(0.4):
        f = core.r6(10 ** S.uni(-2, 2))
        for k in SCALE_PARAMS[fam]:
            p[k] = core.r6(p[k] * f)
        if fam == "LogNormal":
            p["mu"] = core.r6(p["mu"] + math.log(f))
        if fam == "LogNormalNormFit":
            p["mu_norm"] = core.r6(p["mu_norm"] * f)
            p["sigma_norm"] = core.r6(p["sigma_norm"] * f)
        if fam == "GenGamma":
            p["lambda_"] = core.r6(p["lambda_"] / f)
    return p


FITTED_KINDS = ["dnvgl_hs_tz", "omae_hs_tz", "dnvgl_hs_u", "omae_v_hs"]


def _gen_slot(S, tier):
    kind = S.wpick([("dist", 4), ("model", 6), ("fitted", 1.5)])
    if kind == "fitted":
        # a predefined model *fitted* to a seeded sub-sample (a fit leaves extra state on the
        # conditional distributions: intervals, boundaries, per-interval estimates)
        return {"kind": "fitted", "getter": S.pick(FITTED_KINDS), "letter": S.pick(["A", "B", "C"]), "n": S.pick([1500, 3000]), "dseed": S.sub("fd"), "refit": S.chance(0.3)}
    if kind == "dist":
        fam = S.pick(list(FAM))
        return {"kind": "dist", "family": fam, "params": _gen_params(S, fam)}
    nd = S.wpick([(2, 5), (3, 5)])
    cond = S.pick(STRUCTS[nd])
    dims = []
    for i in range(nd):
        fam = S.pick(list(FAM))
        p = _gen_params(S, fam, wide=False)
        d = {"family": fam, "cond_on": cond[i], "params": p}
        if cond[i] is None and i > 0 and dims and dims[0]["cond_on"] is None and S.chance(0.12):
            # the very same distribution *object* describes two dimensions (i.i.d. variables)
            d = {"family": dims[0]["family"], "cond_on": None, "params": dims[0]["params"], "same_object_as": 0}
        if cond[i] is not None:
            # every parameter a bounded, positive-where-needed function of the conditioning value
            d["deps"] = {}
            const = S.chance(0.1)  # dependence functions that return a scalar whatever the conditioning values are
            for k, v in p.items():
                amp = core.r6(S.uni(0.1, 0.8) * abs(v) if v != 0 else S.uni(0.1, 0.5))
                d["deps"][k] = [v, amp]
            if const:
                d["const_deps"] = True
                d["const_kind"] = S.pick(["float", "0d"])
        dims.append(d)
    return {"kind": "model", "dims": dims}


def generate(prop, seed, tier):
    S = core.SeedStream(seed)
    n_slots = S.wpick([(1, 4), (2, 4), (3, 2)])
    slots = [_gen_slot(S, tier) for _ in range(n_slots)]
    n_gens = S.int(1, 3)
    gens = [S.sub("gen", g) for g in range(n_gens)]
    ops = []
    n_ops = S.int(3, 8)
    big_used = 0
    for k in range(n_ops):
        if S.chance(0.15):
            ops.append({"op": "skew", "k": S.sub("skew", k), "k2": S.sub("skew2", k)})
            continue
        n = S.wpick([(1, 1), (2, 1), (3, 1), (10, 1), (1000, 2), (2000, 1), (2503, 0.5), (20000, 3), (20011, 0.5), (100000, 2 if big_used < 2 else 0.2), (100003, 0.3 if big_used < 2 else 0.05), (333333, 0.25 if big_used < 1 else 0.02)] + ([(1000000, 0.15), (612345, 0.15)] if tier == "thorough" and big_used == 0 else []))
        if n >= 100000:
            big_used += 1
        rs = S.wpick([({"kind": "none", "pin": S.sub("pin", k)}, 3), ({"kind": "int", "seed": S.pick([0, 1, 42, S.sub("s", k) % 1000, S.sub("s", k), 2**32 + S.sub("s", k) % 1000, 2**63 + 5]), "type": S.wpick([("int", 4), ("np.int64", 1), ("np.uint32", 0.5)])}, 4), ({"kind": "gen", "gen": S.int(0, n_gens - 1)}, 4)])
        if rs["kind"] == "int" and rs["type"] != "int":
            rs["seed"] = rs["seed"] % (2**31)
        slot_i = S.int(0, n_slots - 1)
        if rs["kind"] == "int" and slots[slot_i]["kind"] == "dist":
            rs["seed"] = rs["seed"] % (2**32)  # scipy's legacy seeding of single distributions accepts 0 .. 2**32-1 only
        ops.append({"op": "draw", "slot": slot_i, "n": n, "rs": rs})
        if S.chance(0.35):
            # a follow-up that makes a seeding relation observable
            prev = ops[-1]
            mode = S.pick(["repeat", "other_seed", "same_gen", "restored_gen"])
            if mode == "repeat" and prev["rs"]["kind"] in ("int", "none"):
                ops.append(copy.deepcopy(prev))
            elif mode == "other_seed" and prev["rs"]["kind"] == "int":
                o = copy.deepcopy(prev)
                big_ok = prev["rs"].get("type", "int") == "int" and slots[prev["slot"]]["kind"] != "dist"
                o["rs"]["seed"] = prev["rs"]["seed"] + (S.pick([1, 2, 3, 2**32, 2**33, 2**32 * 5]) if big_ok else 1)
                ops.append(o)
            elif mode == "same_gen" and prev["rs"]["kind"] == "gen":
                ops.append(copy.deepcopy(prev))
            elif mode == "restored_gen" and prev["rs"]["kind"] == "gen":
                # the caller checkpoints the generator (bit_generator.state) before a draw and writes the
                # state back later: the draw must replay
                o = copy.deepcopy(prev)
                o["rs"]["restore"] = True
                ops.append(o)
    # history: the object's parameters change (re-fit or plain assignment) between draws
    for si, sl in enumerate(slots):
        if sl["kind"] in ("dist", "model") and S.chance(0.35):
            fam = sl["family"] if sl["kind"] == "dist" else sl["dims"][0]["family"]
            if sl["kind"] == "model" and sl["dims"][0]["cond_on"] is not None:
                continue
            newp = _gen_params(S, fam, wide=False)
            pos = S.int(1, len(ops))
            ops.insert(pos, {"op": "mutate", "slot": si, "how": S.pick(["assign", "fit"]), "params": newp, "dseed": S.sub("mut", si)})
            ops.insert(pos + 1, {"op": "draw", "slot": si, "n": 20000, "rs": {"kind": "int", "seed": S.sub("after", si) % 1000}})
            if S.chance(0.5):
                ops.insert(max(0, pos - 1), {"op": "draw", "slot": si, "n": S.pick([10, 2000]), "rs": {"kind": "int", "seed": 7}})
    # the object is replaced by a deep copy of itself (users copy models); draws with explicit
    # parameter overrides on single distributions (a rarely used entry point)
    for si, sl in enumerate(slots):
        if S.chance(0.15):
            ops.insert(S.int(0, len(ops)), {"op": "clone", "slot": si})
        if sl["kind"] == "dist" and S.chance(0.25):
            ops.insert(S.int(0, len(ops)), {"op": "xdraw", "slot": si, "n": 20000, "params": _gen_params(S, sl["family"], wide=False), "as_kw": S.chance(0.5), "rs": {"kind": "int", "seed": S.sub("x", si) % 100000}})
    # direct draws from a conditional dimension with a vector of conditioning values: (n, len) draws
    for si, sl in enumerate(slots):
        if sl["kind"] == "model" and S.chance(0.5):
            cds = [i for i, d in enumerate(sl["dims"]) if d["cond_on"] is not None]
            if cds:
                cop = {"op": "cdraw", "slot": si, "dim": S.pick(cds), "n": S.pick([1, 3, 2000, 5000]), "given": [core.r6(S.uni(0.2, 6.0)) for _ in range(S.int(2, 5))], "rs": {"kind": "int", "seed": S.sub("cd", si)}}
                if S.chance(0.4):
                    # a long vector of conditioning values with ties (the values repeated `tile` times), few
                    # realisations each: what a joint sample hands to a conditional dimension
                    cop["given"] = cop["given"][: S.int(1, 3)]
                    cop["tile"] = S.pick([1500, 4000])
                    cop["n"] = S.pick([1, 2])
                if S.chance(0.25):
                    cop["given_type"] = "int"
                ops.insert(S.int(0, len(ops)), cop)
    if not any(o["op"] == "draw" and o["n"] >= 2000 for o in ops):
        ops.append({"op": "draw", "slot": 0, "n": 20000, "rs": {"kind": "int", "seed": S.sub("last")}})
    return {"engine": NAME, "property": prop, "seed": seed, "slots": slots, "gens": gens, "ops": ops}


# --------------------------------------------------------------------------


FIT_FAMILIES = {"dnvgl_hs_tz": ["Weibull", "LogNormal"], "omae_hs_tz": ["ExpWeibull", "LogNormal"], "dnvgl_hs_u": ["Weibull", "Weibull"], "omae_v_hs": ["ExpWeibull", "ExpWeibull"]}


def build_slot(sl):
    from virocon import DependenceFunction, GlobalHierarchicalModel

    if sl["kind"] == "fitted":
        from sim import models

        m, data, sem = models.build_predefined(sl["getter"], sl["letter"], sl["n"], sl["dseed"])
        if sl.get("refit"):
            desc, fit_desc, sem, tr = models.predefined(sl["getter"])
            m.fit(models.dataset_for(sl["getter"], sl["letter"], sl["n"], sl["dseed"] + 1), fit_desc)
        # describe it like a generated model so that the same oracles apply
        sl["dims"] = [{"family": f, "cond_on": c} for f, c in zip(FIT_FAMILIES[sl["getter"]], m.conditional_on)]
        return m
    if sl["kind"] == "dist":
        return fam_class(sl["family"])(**sl["params"])
    descs = []
    for d in sl["dims"]:
        cls = fam_class(d["family"])
        if d.get("same_object_as") is not None:
            descs.append({"distribution": descs[d["same_object_as"]]["distribution"]})
        elif d["cond_on"] is None:
            descs.append({"distribution": cls(**d["params"])})
        else:
            from engines.fit_c14 import make_func  # noqa: F401
            import types

            pars = {}
            for k, (a, b) in d["deps"].items():
                if d.get("const_deps"):
                    c_ = const0d if d.get("const_kind") == "0d" else const1
                    f = types.FunctionType(c_.__code__, c_.__globals__, c_.__name__, (a,))
                else:
                    f = types.FunctionType(logi2.__code__, logi2.__globals__, "logi2", (a, b))
                pars[k] = DependenceFunction(f)
            descs.append({"distribution": cls(), "conditional_on": d["cond_on"], "parameters": pars})
    return GlobalHierarchicalModel(descs)


def _wrap_vm(x, mu):
    return mu + (np.asarray(x, dtype=float) - mu + np.pi) % (2 * np.pi) - np.pi


def _ks(u):
    """sup |F_n - U| of a sample u that should be uniform on [0,1]"""
    u = np.sort(np.asarray(u, dtype=float))
    n = len(u)
    i = np.arange(1, n + 1)
    return float(max(np.max(i / n - u), np.max(u - (i - 1) / n)))


def check_law_dist(run, sl, obj, x, site):
    n = len(x)
    fam = sl["family"]
    xx = x
    if fam == "VonMises":
        xx = _wrap_vm(x, float(obj.parameters["mu"]))
    with np.errstate(all="ignore"):
        u = np.asarray(obj.cdf(xx), dtype=float)
    d = _ks(u)
    run.count("dkw_comparisons")
    if not d <= eps_dkw(n):
        run.violate("I2-univariate-law", f"{fam}", {"n": n, "sup_distance": d, "eps_dkw": eps_dkw(n), "params": sl["params"]})
        return False
    return True


def rosenblatt(sl, model, X):
    """u_i = F_i(x_i | x_cond(i)) from the model's own marginal / conditional cdfs"""
    U = np.empty_like(X)
    for i, d in enumerate(sl["dims"]):
        dist = model.distributions[i]
        xi = X[:, i]
        with np.errstate(all="ignore"):
            if d["cond_on"] is None:
                if d["family"] == "VonMises":
                    xi = _wrap_vm(xi, float(dist.parameters["mu"]))
                U[:, i] = dist.cdf(xi)
            else:
                g = X[:, d["cond_on"]]
                if d["family"] == "VonMises":
                    mu = np.asarray(dist.conditional_parameters["mu"](g), dtype=float)
                    xi = _wrap_vm(xi, mu)
                U[:, i] = dist.cdf(xi, given=g)
    return U


def check_law_model(run, sl, model, X):
    n, nd = X.shape
    U = rosenblatt(sl, model, X)
    struct = [d["cond_on"] for d in sl["dims"]]
    fams = [d["family"] for d in sl["dims"]]
    if not np.all(np.isfinite(U)):
        run.violate("I2-joint-law", "rosenblatt-not-finite", {"structure": struct, "families": fams})
        return False
    for i in range(nd):
        d = _ks(U[:, i])
        run.count("dkw_comparisons")
        if not d <= eps_dkw(n):
            run.violate("I2-joint-law", f"marginal-uniformity/dim{i}", {"dim": i, "n": n, "sup_distance": d, "eps_dkw": eps_dkw(n), "structure": struct, "families": fams})
            return False
        # independence from every earlier coordinate: uniform within each of 5 quantile bins
        for j in range(i):
            order = np.argsort(X[:, j], kind="stable")
            bins = list(np.array_split(order, 5))
            if n >= 50000:
                # the tails of the conditioning variable (where dependence functions are extrapolated)
                k1, k5 = n // 100, n // 20
                bins += [order[:k1], order[-k1:], order[:k5], order[-k5:]]
            for b, idx in enumerate(bins):
                db = _ks(U[idx, i])
                run.count("dkw_comparisons")
                if not db <= eps_dkw(len(idx)):
                    run.violate(
                        "I2-joint-law",
                        f"conditional-uniformity/dim{i}|dim{j}" + ("(declared)" if struct[i] == j else ""),
                        {"dim": i, "given_dim": j, "bin": b, "n_bin": len(idx), "sup_distance": db, "eps_dkw": eps_dkw(len(idx)), "structure": struct, "families": fams},
                    )
                    return False
    return True


def check_shape_support(run, sl, obj, x, n):
    if sl["kind"] == "dist":
        want = (n,)
    else:
        want = (n, len(sl["dims"]))
    x = np.asarray(x)
    if x.shape != want:
        run.violate("I1-shape", sl["kind"], {"shape": list(x.shape), "want": list(want), "n": n})
        return False
    if not np.all(np.isfinite(x)):
        run.violate("I1-finite", sl["kind"], {"n": n, "non_finite": int(np.sum(~np.isfinite(x)))})
        return False
    fams = [sl["family"]] if sl["kind"] == "dist" else [d["family"] for d in sl["dims"]]
    cols = [x] if sl["kind"] == "dist" else [x[:, i] for i in range(x.shape[1])]
    for f, c in zip(fams, cols):
        if f in POSITIVE and POSITIVE[f] is not None and np.any(c < POSITIVE[f]):
            run.violate("I1-support", f, {"min": float(np.min(c))})
            return False
    return True


def _given_of(op):
    if op.get("given_type") == "int":
        g = np.array([max(1, int(round(v))) for v in op["given"]], dtype=int)  # whole numbers, integer-typed
    else:
        g = np.array(op["given"], dtype=float)
    return np.tile(g, op["tile"]) if op.get("tile") else g


def check_cdraw(run, sl, model, op, x):
    """ConditionalDistribution.draw_sample(n, given=<vector>): one column per conditioning value"""
    d = sl["dims"][op["dim"]]
    g = _given_of(op)
    want = (op["n"], len(g))
    if x.shape != want:
        run.violate("I1-shape", "conditional-vector-given", {"shape": list(x.shape), "want": list(want)})
        return False
    if not np.all(np.isfinite(x)):
        run.violate("I1-finite", "conditional-vector-given", {"n": op["n"]})
        return False
    if op.get("tile"):
        # every entry is its own realisation, drawn given the value at its position: the conditional
        # probability integral transforms of one row are independent uniforms, ties or not
        dist = model.distributions[op["dim"]]
        for i in range(x.shape[0]):
            row = x[i]
            if d["family"] == "VonMises":
                row = _wrap_vm(row, np.asarray(dist.conditional_parameters["mu"](g), dtype=float))
            with np.errstate(all="ignore"):
                u = np.asarray(dist.cdf(row, given=g), dtype=float)
            dd = _ks(u)
            run.count("dkw_comparisons")
            run.count("probe:tied-conditioning-values")
            if not dd <= eps_dkw(len(g)):
                run.violate("I2-conditional-law", f"tied-given/{d['family']}", {"row": i, "distinct_given": len(op["given"]), "entries": len(g), "distinct_realisations": int(len(np.unique(row))), "sup_distance": dd, "eps_dkw": eps_dkw(len(g))})
                return False
        return True
    if op["n"] >= 2000:
        dist = model.distributions[op["dim"]]
        for j, gj in enumerate(g):
            col = x[:, j]
            if d["family"] == "VonMises":
                col = _wrap_vm(col, float(dist.conditional_parameters["mu"](gj)))
            with np.errstate(all="ignore"):
                u = np.asarray(dist.cdf(col, given=gj), dtype=float)
            dd = _ks(u)
            run.count("dkw_comparisons")
            if not dd <= eps_dkw(op["n"]):
                run.violate("I2-conditional-law", f"vector-given/{d['family']}", {"column": j, "given": float(gj), "sup_distance": dd, "eps_dkw": eps_dkw(op["n"]), "n": op["n"]})
                return False
    return True


def _mutate(sl, obj, op):
    """change the parameters of a live object: plain attribute assignment or a re-fit"""
    from engines.fit_c11 import draw as draw_ref

    target = obj if sl["kind"] == "dist" else obj.distributions[0]
    fam = sl["family"] if sl["kind"] == "dist" else sl["dims"][0]["family"]
    if op["how"] == "assign":
        for k, v in op["params"].items():
            setattr(target, k, v)
    else:
        # start the estimator near the new truth: started far away, MLE of the three-parameter families
        # can run into regimes that floating point cannot represent (seen: ExpWeibull delta = 0.004,
        # beta = 82: 6 % of the mass underflows to x = 0), which is not the sampler's doing
        for k, v in op["params"].items():
            setattr(target, k, v * 1.1 if v > 0 else v)
        data = draw_ref(fam, op["params"], 400, op["dseed"])
        try:
            target.fit(data)
        except Exception:  # noqa: BLE001 - a failed estimator leaves whatever it leaves; later draws are judged against the object's own cdf
            pass


class DrawRaised(Exception):
    def __init__(self, k, exc):
        self.k, self.exc = k, exc


class StopRun(Exception):
    pass


def _one_pass(scen, objs, which, on_draw=None):
    """Execute the schedule once; returns list of arrays (one per draw op).  on_draw(k, op, x)
    is called right after each draw, while the object still is in the state it was drawn from."""
    gens = [np.random.default_rng(s) for s in scen["gens"]]
    gen_checkpoint = {}
    out = []
    seams.pin_global(core.h64(scen["seed"], "pass", which))
    for k, op in enumerate(scen["ops"]):
        if op["op"] == "skew":
            # F3: somebody else re-seeds / advances the global RNG (differently in pass B)
            seams.pin_global(op["k"] if which == "A" else op["k2"])
            np.random.random(3 if which == "A" else 17)
            out.append(None)
            continue
        obj = objs[op["slot"]]
        if op["op"] == "mutate":
            _mutate(scen["slots"][op["slot"]], obj, op)
            out.append(None)
            continue
        if op["op"] == "clone":
            import copy as _copy

            objs[op["slot"]] = _copy.deepcopy(obj)
            out.append(None)
            continue
        if op["op"] == "xdraw":
            names = FAM[scen["slots"][op["slot"]]["family"]][0]
            try:
                if op["as_kw"]:
                    x = obj.draw_sample(op["n"], random_state=int(op["rs"]["seed"]), **op["params"])
                else:
                    x = obj.draw_sample(op["n"], *[op["params"][nm] for nm in names], random_state=int(op["rs"]["seed"]))
            except Exception as e:  # noqa: BLE001
                raise DrawRaised(k, e)
            out.append(np.asarray(x))
            if on_draw is not None:
                on_draw(k, op, out[-1])
            continue
        rs = op["rs"]
        try:
            if op["op"] == "cdraw":
                out.append(np.asarray(obj.distributions[op["dim"]].draw_sample(op["n"], _given_of(op), random_state=int(rs["seed"]))))
                if on_draw is not None:
                    on_draw(k, op, out[-1])
                continue
            n_arg = np.int64(op["n"]) if (k % 5 == 3) else op["n"]
            if rs["kind"] == "none":
                seams.pin_global(rs["pin"])
                x = obj.draw_sample(n_arg)
            elif rs["kind"] == "int":
                seed = {"int": int, "np.int64": np.int64, "np.uint32": np.uint32}[rs.get("type", "int")](rs["seed"])
                x = obj.draw_sample(n_arg, random_state=seed)
            else:
                gi = rs["gen"]
                if rs.get("restore") and gi in gen_checkpoint:
                    gens[gi].bit_generator.state = gen_checkpoint[gi]
                gen_checkpoint[gi] = copy.deepcopy(gens[gi].bit_generator.state)
                x = obj.draw_sample(n_arg, random_state=gens[gi])
            out.append(np.array(x, dtype=float, copy=True))
            # the caller post-processes what he was handed (sorts a column, converts units in place); the
            # sample is his, a later draw must not hand the same array out again
            if isinstance(x, np.ndarray) and x.size and x.flags.writeable:
                x[...] = -777.25
        except Exception as e:  # noqa: BLE001 - an exception from the sampler is an outcome of the run
            raise DrawRaised(k, e)
        if on_draw is not None:
            on_draw(k, op, out[-1])
    return out


def execute(prop, scen):
    try:
        return _execute(prop, scen)
    except DrawRaised as d:
        run = core.Run(prop, scen)
        op = scen["ops"][d.k]
        sl = scen["slots"][op["slot"]]
        if sl["kind"] == "fitted" and "Domain error" in str(d.exc):
            # a dependence function fitted to a sub-sample left the admissible range at an extreme
            # conditioning value of the sample: the workload's model, not the sampler
            run.inconclusive = "workload: fitted model inadmissible at an extreme sampled conditioning value"
            return run
        run.violate("I0-draw-raises", f"{sl['kind']}/{type(d.exc).__name__}", {"op_index": d.k, "op": op, "exc": repr(d.exc)[:300], "families": [sl.get("family")] if sl["kind"] == "dist" else [x["family"] for x in sl["dims"]]})
        return run


def _execute(prop, scen):
    run = core.Run(prop, scen)
    sig_slots = [(s["kind"], s.get("family"), s.get("getter"), [(d["family"], d["cond_on"]) for d in s.get("dims", [])] if s["kind"] == "model" else None) for s in scen["slots"]]
    run.signature = core.digest([sig_slots, [(o["op"], o.get("slot"), o.get("n"), (o.get("rs") or {}).get("kind"), o.get("dim")) for o in scen["ops"]]])
    with seams.recorded_warnings():
        try:
            seams.pin_global(core.h64(scen["seed"], "build"))
            objs = [build_slot(s) for s in scen["slots"]]
        except RuntimeError as e:
            if "Failed to fit" in str(e) or "too few intervals" in str(e):
                run.inconclusive = f"workload: predefined model could not be fitted to the sub-sample ({str(e)[:50]})"
                return run
            raise
        def on_draw(k, op, x):
            if op["op"] == "cdraw":
                run.event("cdraw", [op["slot"], op["dim"], op["n"], op["given"], op.get("tile")], x)
                if not check_cdraw(run, scen["slots"][op["slot"]], objs[op["slot"]], op, x):
                    raise StopRun()
                return
            sl = scen["slots"][op["slot"]]
            if op["op"] == "xdraw":
                run.event("xdraw", [op["slot"], op["n"], op["params"]], x)
                if np.asarray(x).shape != (op["n"],):
                    run.violate("I1-shape", "dist/explicit-parameters", {"shape": list(np.asarray(x).shape), "n": op["n"]})
                    raise StopRun()
                xx = _wrap_vm(x, op["params"]["mu"]) if sl["family"] == "VonMises" else x
                with np.errstate(all="ignore"):
                    u = np.asarray(ref_frozen(sl["family"], op["params"]).cdf(xx), dtype=float)
                run.count("dkw_comparisons")
                if not _ks(u) <= eps_dkw(op["n"]):
                    run.violate("I2-univariate-law", f"{sl['family']}/explicit-parameters", {"n": op["n"], "sup_distance": _ks(u), "eps_dkw": eps_dkw(op["n"]), "explicit": op["params"], "own": sl["params"]})
                    raise StopRun()
                return
            run.event("draw", [op["slot"], op["n"], op["rs"]], x)
            if not check_shape_support(run, sl, objs[op["slot"]], x, op["n"]):
                raise StopRun()
            if op["n"] >= 2000:
                ok = check_law_dist(run, sl, objs[op["slot"]], x, k) if sl["kind"] == "dist" else check_law_model(run, sl, objs[op["slot"]], x)
                if not ok:
                    run.violations[-1]["detail"]["op_index"] = k
                    run.violations[-1]["detail"]["random_state"] = op["rs"]
                    run.violations[-1]["detail"]["parameters_changed_before"] = any(o["op"] == "mutate" and o["slot"] == op["slot"] for o in scen["ops"][:k])
                    raise StopRun()

        try:
            A = _one_pass(scen, objs, "A", on_draw)
        except StopRun:
            return run
        n_skews = sum(1 for o in scen["ops"] if o["op"] == "skew")
        if n_skews:
            run.count("fault:F3-global-rng-skew", n_skews)
        n_mut = sum(1 for o in scen["ops"] if o["op"] == "mutate")
        if n_mut:
            run.count("probe:parameters-changed-between-draws", n_mut)
        # ---- seeding relations within pass A --------------------------------------------------------
        epoch = {}
        cloned = set()
        unpinned = set()  # draw ops whose random_state=None no longer reads the global RNG
        draws = []
        for k, (op, x) in enumerate(zip(scen["ops"], A)):
            if op["op"] in ("mutate", "clone"):
                epoch[op["slot"]] = epoch.get(op["slot"], 0) + 1
            if op["op"] == "clone":
                cloned.add(op["slot"])
            if op["op"] == "draw":
                if op["rs"]["kind"] == "none" and op["slot"] in cloned:
                    # A deep copy of a scipy-backed distribution carries a private *copy* of the global
                    # RandomState (scipy's rv_generic._random_state), so an unseeded draw from the copy
                    # depends on the global state at copy time - nothing the property speaks about.
                    unpinned.add(k)
                    continue
                draws.append((k, op, x, epoch.get(op["slot"], 0)))
        for a in range(len(draws)):
            ka, oa, xa, ea = draws[a]
            for b in range(a + 1, len(draws)):
                kb, ob, xb, eb = draws[b]
                if oa["slot"] != ob["slot"] or oa["n"] != ob["n"] or ea != eb:
                    continue
                ra, rb = oa["rs"], ob["rs"]
                if ra["kind"] == rb["kind"] == "int":
                    same = np.array_equal(xa, xb)
                    if ra["seed"] == rb["seed"] and not same:
                        run.violate("I3-same-int-seed-reproduces", scen["slots"][oa["slot"]]["kind"], {"ops": [ka, kb], "seed": ra["seed"], "n": oa["n"], "max_abs_diff": float(np.max(np.abs(xa - xb)))})
                        return run
                    if ra["seed"] != rb["seed"] and same:
                        run.violate("I3-different-seeds-differ", scen["slots"][oa["slot"]]["kind"], {"ops": [ka, kb], "seeds": [ra["seed"], rb["seed"]], "n": oa["n"]})
                        return run
                    run.count("seed_relations_checked")
                if ra["kind"] == rb["kind"] == "none" and ra["pin"] == rb["pin"]:
                    run.count("seed_relations_checked")
                    if not np.array_equal(xa, xb):
                        run.violate("I3-none-is-function-of-global-state", scen["slots"][oa["slot"]]["kind"], {"ops": [ka, kb], "n": oa["n"]})
                        return run
                if ra["kind"] == rb["kind"] == "gen" and ra["gen"] == rb["gen"] and kb == ka + 1 and rb.get("restore"):
                    run.count("seed_relations_checked")
                    run.count("probe:generator-state-written-back")
                    if not np.array_equal(xa, xb):
                        run.violate("I3-restored-generator-state-replays", scen["slots"][oa["slot"]]["kind"], {"ops": [ka, kb], "n": oa["n"]})
                        return run
                elif ra["kind"] == rb["kind"] == "gen" and ra["gen"] == rb["gen"] and kb == ka + 1:
                    run.count("seed_relations_checked")
                    if np.array_equal(xa, xb):
                        run.violate("I3-generator-state-advances", scen["slots"][oa["slot"]]["kind"], {"ops": [ka, kb], "n": oa["n"]})
                        return run
        # ---- pass B: identically seeded Generators, different global-RNG skews -----------
        has_mut = any(o["op"] in ("mutate", "clone") for o in scen["ops"])
        seams.pin_global(core.h64(scen["seed"], "build"))
        objsB = [build_slot(s) for s in scen["slots"]] if (scen["seed"] % 2 or has_mut) else objs
        B = _one_pass(scen, objsB, "B")
        for k, (op, xa, xb) in enumerate(zip(scen["ops"], A, B)):
            if op["op"] in ("skew", "mutate", "clone") or k in unpinned:
                continue
            run.count("replay_comparisons")
            if xa.shape != xb.shape or not np.array_equal(xa, xb):
                kind = op["rs"]["kind"]
                name = {"int": "I3-same-int-seed-reproduces", "gen": "I3-identically-seeded-generator-reproduces", "none": "I3-none-is-function-of-global-state"}[kind]
                run.violate(name, scen["slots"][op["slot"]]["kind"] + "/replayed-schedule", {"op_index": k, "n": op["n"], "random_state": op["rs"], "max_abs_diff": float(np.max(np.abs(xa - xb))) if xa.shape == xb.shape else None, "global_rng_skews_in_schedule": n_skews})
                return run
    return run


def shrink_candidates(prop, scen):
    ops = scen["ops"]
    for i in range(len(ops)):
        if len(ops) > 1:
            c = copy.deepcopy(scen)
            del c["ops"][i]
            if any(o["op"] == "draw" for o in c["ops"]):
                yield c
    # drop unused slots
    used = sorted({o["slot"] for o in ops if o["op"] == "draw"})
    if len(used) < len(scen["slots"]):
        c = copy.deepcopy(scen)
        c["slots"] = [scen["slots"][i] for i in used]
        for o in c["ops"]:
            if o["op"] == "draw":
                o["slot"] = used.index(o["slot"])
        yield c
    for i, o in enumerate(ops):
        if o["op"] == "draw" and o["n"] > 20000:
            c = copy.deepcopy(scen)
            c["ops"][i]["n"] = 20000
            yield c
        if o["op"] == "draw" and o["rs"]["kind"] != "int":
            c = copy.deepcopy(scen)
            c["ops"][i]["rs"] = {"kind": "int", "seed": 1}
            yield c
    for si, s in enumerate(scen["slots"]):
        if s["kind"] == "model" and len(s["dims"]) == 3 and s["dims"][2]["cond_on"] is None:
            c = copy.deepcopy(scen)
            c["slots"][si]["dims"] = s["dims"][:2]
            yield c


def describe(prop):
    return {
        "rule": (
            "one run = 1-3 seeded sampling objects (distribution of any of 9 families, parameters over several orders of magnitude; 2-D/3-D hierarchical model with any admissible "
            "dependence structure and any family per dimension) and a schedule of 3-8 draws (n in {1,2,3,10,1e3,2e3,2e4,1e5, rarely 1e6}; random_state None / int / shared Generator) "
            "interleaved with global-RNG skews, executed twice with identically seeded Generators and different skews. distinct = distinct hash of (object kinds/families/structures, "
            "op sequence with slot, n and random_state kind); non-trivial = every run (each run contains at least one draw with n >= 2000 judged by DKW)."
        ),
        "real": ["draw_sample of every distribution class", "GlobalHierarchicalModel.draw_sample", "ConditionalDistribution.draw_sample/cdf", "DependenceFunction", "numpy Generators / global RandomState", "scipy rvs"],
        "stub": ["none; the simulator only chooses seeds, Generators and the points at which the global RNG is re-seeded"],
        "assumptions": [
            f"statistical agreement by the DKW inequality at error probability {DELTA} per comparison (count reported as statistical_comparisons)",
            "the reference law is the object's own (conditional) cdf, as the property states; von Mises samples are compared modulo 2 pi",
            "conditional independence is probed by uniformity of the Rosenblatt image within 5 quantile bins of every earlier coordinate",
            "every returned sample is overwritten by the harness after it was copied for the checks (the sample is the caller's); a generator state written back must replay the draw",
        ],
        "probes": ["parameters-changed-between-draws", "tied-conditioning-values", "generator-state-written-back"],
    }
