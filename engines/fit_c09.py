"""C09 - joint fitting is order-invariant and fits each interval to exactly its own data.

System under simulation: one GlobalHierarchicalModel (2-D / 3-D, every admissible
conditional_on structure, all three slicers with seeded options, per-dimension
method / weights) taken through a *history* of 1-4 fit calls (first fit, re-fit
with other data, re-fit after a failed fit).  A *twin* model built from an
identical fresh description goes through the same history except that in one
step it receives the same rows in another order.

Faults: F2 (data the estimator or slicer rejects), F1 (optimiser failure inside a
dependence-function fit) - each followed by a clean re-fit (recovery).
"""

import copy
import math
from collections import Counter

import numpy as np

from sim import core, seams
from engines.fit_c11 import FAM, fam_class, ref_frozen
from engines.fit_c14 import SHAPES, make_func

NAME = "fit"

UNCOND = ["Weibull0", "LogNormal", "Normal", "ExpWeibull", "LogNormalNormFit"]
COND = ["LogNormal", "Normal", "Weibull0", "ExpWeibullD", "LogNormalNormFit", "NormalMu", "LogNormalMu"]

# template spec: family, fixed params, free params with truth ranges
TEMPLATES = {
    "Weibull0": ("Weibull", {"gamma": 0.0}, {"alpha": (1.5, 4.0), "beta": (1.2, 2.8)}),
    "LogNormal": ("LogNormal", {}, {"mu": (0.3, 1.6), "sigma": (0.15, 0.6)}),
    "Normal": ("Normal", {}, {"mu": (3.0, 9.0), "sigma": (0.5, 2.0)}),
    "ExpWeibull": ("ExpWeibull", {}, {"alpha": (1.5, 4.0), "beta": (1.1, 2.2), "delta": (0.8, 3.0)}),
    "ExpWeibullD": ("ExpWeibull", {"delta": 2.0}, {"alpha": (1.5, 4.0), "beta": (1.1, 2.2)}),
    "LogNormalNormFit": ("LogNormalNormFit", {}, {"mu_norm": (3.0, 8.0), "sigma_norm": (0.5, 1.8)}),
    # a fixed parameter that comes *before* the conditional one in the family's parameter order
    "NormalMu": ("Normal", {"mu": 5.0}, {"sigma": (0.5, 2.0)}),
    "LogNormalMu": ("LogNormal", {"mu": 0.9}, {"sigma": (0.15, 0.6)}),
}

STRUCTS = {2: [[None, 0]], 3: [[None, 0, 0], [None, 0, 1], [None, None, 0], [None, None, 1]]}


def tier_config(prop, tier):
    if tier == "quick":
        return {"runs": 1500, "chunk": 10, "cap_s": 240, "det_seeds": 6, "shrink_budget": 120}
    return {"budget_s": 1200, "chunk": 6, "cap_s": 400, "det_seeds": 32, "shrink_budget": 200, "grace_s": 1500}


# --------------------------------------------------------------------------
# generation
# --------------------------------------------------------------------------


def _gen_slicer(S, n_rows):
    kind = S.wpick([("width", 3), ("number", 3), ("points", 4)])
    k = S.int(3, 7)  # target number of intervals
    sp = {"kind": kind, "min_n_points": S.pick([10, 20, 30, 50]), "min_n_intervals": 2 if k <= 4 else S.pick([2, 3])}
    if kind == "number" and S.chance(0.15):
        # leave the description's 'intervals' key out: default slicer NumberOfIntervalsSlicer(10)
        return {"kind": "number", "default": True, "n_intervals": 10, "reference": "center", "include_max": True, "min_n_points": 50, "min_n_intervals": 3}
    if kind in ("width", "number") and S.chance(0.25):
        # an explicit value range (fractions of the data's maximum, resolved when the model is built)
        sp["value_range_frac"] = S.pick([[0.05, 0.8], [0.0, 0.7], [None, 0.85], [0.1, None]]) if kind == "width" else S.pick([[0.05, 0.8], [0.0, 0.9], [0.1, 1.2]])
    if kind == "width":
        sp["n_target"] = k
        if S.chance(0.4):
            # a 'round' width (not exactly representable in binary) - together with rounded data
            # many rows tie with interval limits
            sp["width"] = S.pick([0.2, 0.3, 0.4, 0.6, 0.7, 0.8, 0.9, 1.1, 1.2])
            sp["nice"] = True
        sp["reference"] = S.pick(["center", "left", "right", "median", "mean", "min", "trimmed"])
        sp["right_open"] = S.chance(0.6)
    elif kind == "number":
        sp["n_intervals"] = k
        sp["reference"] = S.pick(["center", "left", "right", "median"])
        sp["include_max"] = S.chance(0.7)
    else:
        sp["n_points"] = max(25, n_rows // k + S.int(-5, 5))
        sp["reference"] = S.pick(["median", "mean", "min", "trimmed"])
        sp["last_full"] = S.chance(0.5)
        sp["min_n_points"] = min(sp["min_n_points"], sp["n_points"])
    return sp


def generate(prop, seed, tier):
    S = core.SeedStream(seed)
    n_dim = S.wpick([(2, 6), (3, 4)])
    cond = S.pick(STRUCTS[n_dim])
    big = tier == "thorough" and S.chance(0.15)
    dims = []
    for i in range(n_dim):
        tname = S.pick(UNCOND if cond[i] is None else COND)
        fam, fixed, free = TEMPLATES[tname]
        d = {"template": tname, "cond_on": cond[i], "truth": {p: core.r6(S.uni(*r)) for p, r in free.items()}, "deps": {}, "method": None, "weights": None}
        if fam == "ExpWeibull":
            if cond[i] is None or S.chance(0.7):
                # the method keyword is matched case-insensitively by the distributions
                d["method"] = S.pick(["wlsq", "lsq", "wlsq", "lsq", "WLSQ", "Lsq"]) if cond[i] is not None or S.chance(0.9) else "mle"
                d["weights"] = S.pick(["linear", "quadratic", "cubic"])
            else:
                d["method"] = S.pick(["mle", None, None])  # None: the model's default (MLE) is filled in
        elif S.chance(0.5):
            d["method"] = S.pick(["mle", "MLE"])
        if cond[i] is not None and S.chance(0.35):
            # a template constructed with start values of the user's own (not the class defaults)
            d["start"] = {p: core.r6(d["truth"][p] * S.uni(0.7, 1.4)) for p in free}
        if cond[i] is not None:
            for p in free:
                shape = S.wpick([("poly1", 5), ("power3", 1), ("exp3", 1)])
                t = d["truth"][p]
                b = core.r6(S.uni(0.01, 0.06) * t)
                d["deps"][p] = {"shape": shape, "slope": b, "bounds": S.pick([None, "pos"]) if shape == "poly1" else "pos3"}
        if cond[i] is not None and len(d["deps"]) >= 2 and S.chance(0.3):
            # chained dependence functions: one parameter's function uses the other one's
            names_ = list(d["deps"])
            a_, b_ = (names_[0], names_[1]) if S.chance(0.6) else (names_[1], names_[0])  # a_ depends on b_
            d["deps"][b_] = {"shape": "poly1", "slope": d["deps"][b_]["slope"], "bounds": None}
            d["deps"][a_] = {"shape": "scaled1", "slope": d["deps"][a_]["slope"], "bounds": None, "cond": b_}
        dims.append(d)
    n_steps = S.wpick([(1, 3), (2, 4), (3, 3), (4, 1)])
    steps = []
    twin_step = S.int(0, n_steps - 1)
    for k in range(n_steps):
        n = S.pick([300, 600, 1000, 2000] if tier == "quick" else [300, 1000, 2000, 5000]) if not big else S.pick([10000, 20000])
        st = {
            "n": n,
            "dseed": S.sub("data", k),
            "round": S.wpick([(None, 5), (0.1, 2), (0.01, 1)]),
            "order": S.pick(["asdrawn", "sorted0", "shuffled"]),
            "scale": core.r6(S.pick([1.0, 1.0, 1.3, 0.8])),
            "twin_perm": S.sub("perm", k) if k == twin_step else None,
            "container": S.wpick([("ndarray", 4), ("list", 1), ("dataframe", 2), ("fortran", 1), ("int64", 0.8)]),
            "clone_before": S.chance(0.12),
            "fault": None,
        }
        if k > 0 and S.chance(0.15):
            st["omit_fit_desc"] = True  # model.fit(data): every dimension with the documented default (MLE)
        steps.append(st)
    # faults in non-final steps
    if n_steps >= 2 and S.chance(0.4):
        k = S.int(0, n_steps - 2)
        steps[k]["fault"] = S.wpick([({"kind": "F2-negative"}, 2), ({"kind": "F2-too-few"}, 2), ({"kind": "F1", "at": S.int(0, 3)}, 3)])
        if steps[k]["twin_perm"] is not None:
            steps[k]["twin_perm"] = None
            steps[-1]["twin_perm"] = S.sub("perm", 99)
    slicers = [_gen_slicer(S, min(s["n"] for s in steps)) for _ in range(n_dim)]
    if any(sp.get("nice") for sp in slicers) and S.chance(0.8):
        for st in steps:
            st["round"] = 0.1
    for d in dims:
        if d["cond_on"] is None:
            continue
        sp = slicers[d["cond_on"]]
        k_target = sp.get("n_target") or sp.get("n_intervals") or (min(s["n"] for s in steps) // sp["n_points"])
        for p, dd in d["deps"].items():
            if dd["shape"] not in ("poly1", "scaled1") and k_target < 6:
                d["deps"][p] = {"shape": "poly1", "slope": dd["slope"], "bounds": None}
    scen_out = {"engine": NAME, "property": prop, "seed": seed, "cond": cond, "dims": dims, "slicers": slicers, "steps": steps, "reuse_fit_desc": S.chance(0.4)}
    ew_default = [i for i, d in enumerate(dims) if TEMPLATES[d["template"]][0] == "ExpWeibull" and d["method"] is None and (d["cond_on"] is None or d["template"] == "ExpWeibullD")]
    if scen_out["reuse_fit_desc"] and ew_default and n_steps >= 2 and S.chance(0.7):
        # after the first fit the caller changes "his" entry - the dict the model wrote into the list - in place
        scen_out["edit_filled_entry"] = {"after_step": 0, "dim": S.pick(ew_default), "method": "wlsq", "weights": S.pick(["linear", "quadratic"])}
    return scen_out


# --------------------------------------------------------------------------
# data, model construction
# --------------------------------------------------------------------------


def dep_truth(dspec, p, g):
    t = dspec["truth"][p]
    b = dspec["deps"][p]["slope"]
    return t + b * g


def make_data(scen, st):
    rng = np.random.default_rng(st["dseed"])
    n = st["n"]
    cols = []
    for i, d in enumerate(scen["dims"]):
        fam, fixed, free = TEMPLATES[d["template"]]
        u = rng.uniform(0.001, 0.999, size=n)
        if d["cond_on"] is None:
            p = dict(fixed)
            p.update(d["truth"])
            if "alpha" in p:
                p["alpha"] = p["alpha"] * st["scale"]
            x = ref_frozen(fam, p).ppf(u)
        else:
            g = cols[d["cond_on"]]
            x = np.empty(n)
            pv = dict(fixed)
            pv.update({q: dep_truth(d, q, g) for q in free})
            # vectorised ppf through scipy broadcasting
            import scipy.stats as sts

            if fam == "LogNormal":
                x = sts.lognorm.ppf(u, pv["sigma"], scale=np.exp(pv["mu"]))
            elif fam == "Normal":
                x = sts.norm.ppf(u, loc=pv["mu"], scale=pv["sigma"])
            elif fam == "Weibull":
                x = sts.weibull_min.ppf(u, pv["beta"], loc=0.0, scale=pv["alpha"])
            elif fam == "ExpWeibull":
                x = sts.exponweib.ppf(u, pv["delta"], pv["beta"], scale=pv["alpha"])
            elif fam == "LogNormalNormFit":
                mu = np.log(pv["mu_norm"] / np.sqrt(1 + pv["sigma_norm"] ** 2 / pv["mu_norm"] ** 2))
                sg = np.sqrt(np.log(1 + pv["sigma_norm"] ** 2 / pv["mu_norm"] ** 2))
                x = sts.lognorm.ppf(u, sg, scale=np.exp(mu))
        cols.append(np.asarray(x, dtype=float))
    D = np.column_stack(cols)
    if st["round"]:
        D = np.round(D / st["round"]) * st["round"]
        D = np.where(D <= 0, st["round"], D) if all(TEMPLATES[d["template"]][0] != "Normal" for d in scen["dims"]) else D
    if st["order"] == "sorted0":
        D = D[np.argsort(D[:, 0], kind="stable")]
    elif st["order"] == "shuffled":
        D = D[np.random.default_rng(st["dseed"] + 1).permutation(n)]
    if st.get("container") == "int64":
        # measurements stored as integers (e.g. in cm or dm): the values are integral floats for the oracles
        D = np.maximum(np.round(D), 1.0) if all(TEMPLATES[d["template"]][0] != "Normal" for d in scen["dims"]) else np.round(D)
    f = st.get("fault")
    if f and f["kind"] == "F2-negative":
        D = D.copy()
        D[:, 0] = -np.abs(D[:, 0]) - 0.5
    if f and f["kind"] == "F2-too-few":
        D = D[:25]
    if st.get("container") == "int64":
        D = np.round(D)  # after the fault edits as well: what is handed over is integral
    return D


REFS = {"median": np.median, "mean": np.mean, "min": np.min, "trimmed": lambda a: float(np.mean(np.sort(a)[len(a) // 10 : len(a) - len(a) // 10 or None]))}


def make_slicer(sp, data_max):
    from virocon import NumberOfIntervalsSlicer, PointsPerIntervalSlicer, WidthOfIntervalSlicer

    ref = REFS.get(sp["reference"], sp["reference"])
    kw = {"min_n_points": sp["min_n_points"], "min_n_intervals": sp["min_n_intervals"]}
    vr = None
    if sp.get("value_range_frac"):
        vr = tuple(None if f is None else core.r6(f * data_max) for f in sp["value_range_frac"])
    if sp["kind"] == "width":
        width = sp.get("width") or core.r6(data_max / sp["n_target"])
        return WidthOfIntervalSlicer(width=width, reference=ref, right_open=sp["right_open"], value_range=vr, **kw)
    if sp["kind"] == "number":
        return NumberOfIntervalsSlicer(n_intervals=sp["n_intervals"], reference=ref, include_max=sp["include_max"], value_range=vr, **kw)
    return PointsPerIntervalSlicer(n_points=sp["n_points"], reference=ref, last_full=sp["last_full"], **kw)


def make_template(d):
    fam, fixed, free = TEMPLATES[d["template"]]
    cls = fam_class(fam)
    kw = {"f_" + p: v for p, v in fixed.items()}
    kw.update(d.get("start") or {})  # the user's own start values for the estimator
    return cls(**kw)


def make_deps(deps):
    """all dependence functions of one conditional dimension (chained ones after their conditioner)"""
    out = {}
    for p, dd in deps.items():
        if "cond" not in dd:
            out[p] = make_dep(dd)
    for p, dd in deps.items():
        if "cond" in dd:
            out[p] = make_dep(dd, out[dd["cond"]])
    return {p: out[p] for p in deps}


def make_dep(dd, conditioner=None):
    from virocon import DependenceFunction

    if dd["shape"] == "scaled1":
        return DependenceFunction(make_func("scaled1", [1.0, 1.0]), d_of_x=conditioner)
    shape = dd["shape"]
    nown = SHAPES[shape][1]
    bounds = None
    if dd["bounds"] == "pos":
        bounds = [(0, None)] * nown
    elif dd["bounds"] == "pos3":
        bounds = [(0, None), (0, None), (None, None)]
    p0 = [1.0] * nown
    if shape == "exp3":
        p0 = [1.0, 1.0, 0.05]
    return DependenceFunction(make_func(shape, p0), bounds=bounds)


def build_model(scen, width_hint):
    from virocon import GlobalHierarchicalModel

    descs = []
    for i, d in enumerate(scen["dims"]):
        desc = {"distribution": make_template(d), "intervals": make_slicer(scen["slicers"][i], width_hint[i])}
        if scen["slicers"][i].get("default"):
            del desc["intervals"]  # the model's documented default: NumberOfIntervalsSlicer(n_intervals=10)
        if d["cond_on"] is not None:
            desc["conditional_on"] = d["cond_on"]
            desc["parameters"] = make_deps(d["deps"])
        descs.append(desc)
    return GlobalHierarchicalModel(descs)


def fit_desc_of(scen):
    out = []
    for d in scen["dims"]:
        if d["method"] is None:
            out.append(None)
        elif d["weights"] is None and d["method"].lower() == "mle":
            out.append({"method": d["method"]})
        else:
            out.append({"method": d["method"], "weights": d["weights"]})
    return out


# --------------------------------------------------------------------------
# oracles
# --------------------------------------------------------------------------


def _params_equal(a, b, tol=1e-12):
    for k in a:
        x, y = float(a[k]), float(b[k])
        if x != x and y != y:
            continue  # both NaN (estimator accepted data it cannot fit)
        if not (abs(x - y) <= tol * max(1.0, abs(x), abs(y))):
            return False
    return True


def _law_dist(fam, pa, pb):
    """sup-distance of two laws of one family on a 99-point quantile grid of the first"""
    q = np.linspace(0.01, 0.99, 99)
    try:
        fa, fb = ref_frozen(fam, pa), ref_frozen(fam, pb)
        x = fa.ppf(q)
        return float(np.max(np.abs(fa.cdf(x) - fb.cdf(x))))
    except Exception:
        return float("nan")


def check_model(run, scen, model, D, pre_params, step, tag):
    """O1, O2, O3 on model after a successful fit to D."""
    fd = fit_desc_of(scen)
    for i, d in enumerate(scen["dims"]):
        fam, fixed, free = TEMPLATES[d["template"]]
        method = (d["method"] or "mle")
        weights = d["weights"]
        dist = model.distributions[i]
        sk = scen["slicers"][d["cond_on"]]["kind"] if d["cond_on"] is not None else "-"
        if d["cond_on"] is None:
            # O2 for unconditional dimensions: stand-alone fit started from the same pre-step parameters
            ref = fam_class(fam)(**{**{p: v for p, v in pre_params[i].items() if p not in fixed}, **{"f_" + p: v for p, v in fixed.items()}})
            try:
                ref.fit(D[:, i].copy(), method, weights)
            except Exception:
                run.count("o2_reference_fit_failed")
                continue
            run.count("o2_comparisons")
            if not _params_equal(ref.parameters, dist.parameters):
                run.violate("O2-standalone-equality", f"unconditional/{d['template']}/{method.lower()}", {"dim": i, "model": dict(dist.parameters), "standalone": dict(ref.parameters), "step": step, "tag": tag})
                return
            continue
        j = d["cond_on"]
        bounds = dist.conditioning_interval_boundaries
        cvals = np.asarray(dist.conditioning_values, dtype=float)
        ivs = dist.data_intervals
        if not (len(bounds) == len(cvals) == len(ivs) == len(dist.parameters_per_interval)):
            run.violate("O1-interval-bookkeeping", f"{sk}", {"dim": i, "n_bounds": len(bounds), "n_values": len(cvals), "n_intervals": len(ivs), "step": step})
            return
        scale = float(np.max(np.abs(D[:, j]))) or 1.0
        eta = 1e-9 * scale
        cj = D[:, j]
        spj = scen["slicers"][j]
        for k, (lo, hi) in enumerate(bounds):
            if spj["kind"] == "width":
                # WidthOfIntervalSlicer documents [a, b) / (a, b] and reports a and b: a row belongs to
                # the reported interval or it does not - no tolerance
                must = ((cj >= lo) & (cj < hi)) if spj["right_open"] else ((cj > lo) & (cj <= hi))
                may = must
            else:
                must = (cj > lo + eta) & (cj < hi - eta)
                may = (cj >= lo - eta) & (cj <= hi + eta)
            got = Counter(np.asarray(ivs[k], dtype=float).tolist())
            c_must = Counter(D[must, i].tolist())
            c_may = Counter(D[may, i].tolist())
            run.count("o1_interval_checks")
            missing = c_must - got
            extra = got - c_may
            if missing or extra:
                run.violate(
                    "O1-interval-membership",
                    f"{sk}",
                    {"dim": i, "interval": k, "boundaries": [lo, hi], "rows_inside_missing": sum(missing.values()), "rows_outside_present": sum(extra.values()), "interval_size": len(ivs[k]), "rows_strictly_inside": int(must.sum()), "step": step, "tag": tag, "row_order": scen["steps"][step]["order"]},
                )
                return
            if len(ivs[k]) < spj["min_n_points"]:
                run.violate("O1-min-points", f"{sk}", {"dim": i, "interval": k, "size": len(ivs[k]), "min_n_points": spj["min_n_points"], "step": step})
                return
            if not (lo - eta <= cvals[k] <= hi + eta):
                run.violate("O1-reference-in-interval", f"{sk}", {"dim": i, "interval": k, "reference": float(cvals[k]), "boundaries": [lo, hi], "step": step})
                return
            # reference value semantics (only when no row sits on an edge)
            if int(must.sum()) == int(may.sum()):
                ref_kind = spj["reference"]
                if ref_kind == "center":
                    want = (lo + hi) / 2
                elif ref_kind == "left":
                    want = lo
                elif ref_kind == "right":
                    want = hi
                else:
                    want = float(REFS[ref_kind](cj[must])) if must.any() else None
                if spj["kind"] == "points" and ref_kind in ("center", "left", "right"):
                    want = None
                if want is not None and abs(cvals[k] - want) > 1e-9 * scale:
                    run.violate("O1-reference-value", f"{sk}/{ref_kind}", {"dim": i, "interval": k, "reference": float(cvals[k]), "expected": want, "step": step})
                    return
            # O2 stand-alone equality
            ref = make_template(d)
            try:
                ref.fit(np.array(ivs[k], dtype=float), method, weights)
            except Exception:
                run.count("o2_reference_fit_failed")
                continue
            run.count("o2_comparisons")
            if not _params_equal(ref.parameters, dist.parameters_per_interval[k]):
                run.violate("O2-standalone-equality", f"conditional/{d['template']}/{method.lower()}", {"dim": i, "interval": k, "model": dict(dist.parameters_per_interval[k]), "standalone": dict(ref.parameters), "method": method, "weights": weights, "step": step, "tag": tag})
                return
        # O3: dependence functions fitted to exactly the (reference value, estimate) pairs
        refs = make_deps(d["deps"])
        ref_failed = set()
        for p in sorted(d["deps"], key=lambda q: "cond" in d["deps"][q]):  # conditioners first
            try:
                refs[p].fit(cvals, [float(par[p]) for par in dist.parameters_per_interval])
            except Exception:
                ref_failed.add(p)
        for p, dd in d["deps"].items():
            dep = dist.conditional_parameters[p]
            y = [float(par[p]) for par in dist.parameters_per_interval]
            ref = refs[p]
            if p in ref_failed or dd.get("cond") in ref_failed:
                run.count("o3_reference_fit_failed")
                continue
            if "cond" in dd:
                run.count("probe:chained-dependence-checked")
            with np.errstate(all="ignore"):
                a = np.asarray(dep(cvals), dtype=float)
                b = np.asarray(ref(cvals), dtype=float)
            sc = float(np.max(np.abs(y))) or 1.0
            run.count("o3_comparisons")
            if not (np.all(np.isfinite(a)) and np.all(np.isfinite(b))):
                continue
            if "cond" in dd:
                # a chained function is k * d(x) + e with d the conditioner *of this model*: evaluated from
                # its own coefficients and the model's own conditioner it must give what the object gives
                # (a copy that still evaluates the conditioner of the object it was copied from was fitted
                # against the wrong curve and does not)
                k_, e_ = [float(v) for v in dep.parameters.values()]
                with np.errstate(all="ignore"):
                    own = k_ * np.asarray(dist.conditional_parameters[dd["cond"]](cvals), dtype=float) + e_
                if np.all(np.isfinite(own)):
                    dev_own = float(np.max(np.abs(a - own))) / max(sc, float(np.max(np.abs(own))), 1e-300)
                    run.count("o3_chained_own_conditioner_checks")
                    if dev_own > 1e-9:
                        run.violate("O3-chained-function-uses-own-conditioner", f"{dd['shape']}" + ("/refit" if tag != "first" else ""), {"dim": i, "param": p, "max_rel_dev": dev_own, "coefficients": [k_, e_], "step": step, "tag": tag})
                        return
            dev = float(np.max(np.abs(a - b))) / sc
            if dev > 1e-3:
                run.violate("O3-dependence-fit-on-pairs", f"{dd['shape']}" + ("/refit" if tag != "first" else ""), {"dim": i, "param": p, "max_rel_dev": dev, "model": [float(v) for v in dep.parameters.values()], "standalone": [float(v) for v in ref.parameters.values()], "n_pairs": len(y), "step": step, "tag": tag})
                return


def check_refit_equals_fresh_fit(run, scen, A, D, hint, step, tag, container):
    """O6: a re-fit of an already fitted model gives what a first fit of a fresh model built from
    the same description gives on the same data (intervals exactly; estimates of conditional
    dimensions exactly - their templates are never fitted; unconditional dimensions, whose
    estimators start from the current parameters, within estimator tolerance)."""
    C = build_model(scen, hint)
    try:
        C.fit(_as_container(D, container), copy.deepcopy(fit_desc_of(scen)))
    except Exception:  # noqa: BLE001
        run.count("o6_fresh_fit_failed")
        return
    run.count("o6_comparisons")
    for i, d in enumerate(scen["dims"]):
        fam, fixed, free = TEMPLATES[d["template"]]
        da, dc = A.distributions[i], C.distributions[i]
        if d["cond_on"] is None:
            # Unconditional dimensions start their estimator from the current parameters (a warm start),
            # so a re-fit may legitimately differ from a fresh fit within estimator tolerance - and after
            # a *failed* fit on rejected data it can differ grossly (seen: Weibull alpha = 5e-14 instead
            # of 2.85).  The property's statement covers the per-interval estimates only, so this is
            # counted, not judged.
            dist = _law_dist(fam, {k: float(v) for k, v in da.parameters.items()}, {k: float(v) for k, v in dc.parameters.items()})
            if dist == dist and dist > 1e-3:
                run.count("probe:unconditional-refit-differs-from-fresh-fit")
            continue
        sk = scen["slicers"][d["cond_on"]]["kind"]
        ba, bc = list(da.conditioning_interval_boundaries), list(dc.conditioning_interval_boundaries)
        if len(ba) != len(bc) or not np.allclose(np.asarray(ba, dtype=float), np.asarray(bc, dtype=float), rtol=1e-12, atol=0):
            run.violate("O6-refit-equals-fresh-fit", f"intervals/{sk}", {"dim": i, "n_intervals_refitted": len(ba), "n_intervals_fresh": len(bc), "first_boundaries_refitted": [list(map(float, b)) for b in ba[:2]], "first_boundaries_fresh": [list(map(float, b)) for b in bc[:2]], "step": step, "tag": tag})
            return
        for k in range(len(ba)):
            if Counter(np.asarray(da.data_intervals[k], dtype=float).tolist()) != Counter(np.asarray(dc.data_intervals[k], dtype=float).tolist()):
                run.violate("O6-refit-equals-fresh-fit", f"interval-population/{sk}", {"dim": i, "interval": k, "size_refitted": len(da.data_intervals[k]), "size_fresh": len(dc.data_intervals[k]), "step": step, "tag": tag})
                return
            if not _params_equal(da.parameters_per_interval[k], dc.parameters_per_interval[k]):
                run.violate("O6-refit-equals-fresh-fit", f"interval-estimate/{d['template']}", {"dim": i, "interval": k, "refitted": dict(da.parameters_per_interval[k]), "fresh": dict(dc.parameters_per_interval[k]), "step": step, "tag": tag})
                return
        cv = np.asarray(da.conditioning_values, dtype=float)
        for p in d["deps"]:
            with np.errstate(all="ignore"):
                a = np.asarray(da.conditional_parameters[p](cv), dtype=float)
                c = np.asarray(dc.conditional_parameters[p](cv), dtype=float)
            if np.all(np.isfinite(a)) and np.all(np.isfinite(c)):
                sc = float(np.max(np.abs(a))) or 1.0
                if float(np.max(np.abs(a - c))) / sc > 1e-3:
                    run.violate("O6-refit-equals-fresh-fit", f"dependence/{d['deps'][p]['shape']}", {"dim": i, "param": p, "refitted": [float(v) for v in da.conditional_parameters[p].parameters.values()], "fresh": [float(v) for v in dc.conditional_parameters[p].parameters.values()], "step": step, "tag": tag})
                    return


def check_twins(run, scen, A, B, step):
    """O4: same rows in another order -> same model."""
    for i, d in enumerate(scen["dims"]):
        fam, fixed, free = TEMPLATES[d["template"]]
        da, db = A.distributions[i], B.distributions[i]
        if d["cond_on"] is None:
            dist = _law_dist(fam, {k: float(v) for k, v in da.parameters.items()}, {k: float(v) for k, v in db.parameters.items()})
            run.count("o4_comparisons")
            if not (dist <= 1e-6):
                run.violate("O4-row-order-invariance", f"unconditional/{d['template']}", {"dim": i, "sup_cdf_distance": dist, "a": dict(da.parameters), "b": dict(db.parameters), "step": step})
                return
            continue
        sk = scen["slicers"][d["cond_on"]]
        if len(da.data_intervals) != len(db.data_intervals):
            run.violate("O4-row-order-invariance", f"intervals/{sk['kind']}", {"dim": i, "n_intervals_a": len(da.data_intervals), "n_intervals_b": len(db.data_intervals), "step": step})
            return
        ties = (scen["steps"][step]["round"] is not None or scen["steps"][step].get("container") == "int64") and sk["kind"] == "points"
        for k in range(len(da.data_intervals)):
            ca = Counter(np.asarray(da.data_intervals[k], dtype=float).tolist())
            cb = Counter(np.asarray(db.data_intervals[k], dtype=float).tolist())
            run.count("o4_comparisons")
            if ca != cb and not ties:
                run.violate("O4-row-order-invariance", f"interval-population/{sk['kind']}", {"dim": i, "interval": k, "only_in_a": sum((ca - cb).values()), "only_in_b": sum((cb - ca).values()), "step": step})
                return
            if ca == cb:
                pa = {q: float(v) for q, v in da.parameters_per_interval[k].items()}
                pb = {q: float(v) for q, v in db.parameters_per_interval[k].items()}
                dist = _law_dist(fam, pa, pb)
                if not (dist <= 1e-6):
                    run.violate("O4-row-order-invariance", f"interval-estimate/{d['template']}", {"dim": i, "interval": k, "sup_cdf_distance": dist, "a": pa, "b": pb, "step": step})
                    return
        if not ties:
            cv = np.asarray(da.conditioning_values, dtype=float)
            for p in d["deps"]:
                if d["deps"][p]["shape"] not in ("poly1", "scaled1"):
                    # Three-parameter exponential / power shapes fitted to a handful of pairs are often
                    # degenerate (seen: b = 1.8e-14, c = -5.8 vs b = 1.5e8, c = -22.9 for inputs that
                    # differ by summation-order noise); no tolerance makes their comparison sound.
                    # They are still held to the stand-alone reference on identical inputs (O3).
                    run.count("o4_nonlinear_dependence_not_compared")
                    continue
                with np.errstate(all="ignore"):
                    a = np.asarray(da.conditional_parameters[p](cv), dtype=float)
                    b = np.asarray(db.conditional_parameters[p](cv), dtype=float)
                if np.all(np.isfinite(a)) and np.all(np.isfinite(b)):
                    sc = float(np.max(np.abs(a))) or 1.0
                    # linear shapes: stable solution; nonlinear 3-parameter shapes on a handful of
                    # pairs amplify the 1e-16 summation-order noise of the estimates (seen: exp3 with
                    # b = 1.3e9, c = -8.1 vs b = 1.2e9, c = -8.07), so only gross disagreement counts
                    tol = {"poly1": 1e-6, "scaled1": 1e-6}.get(d["deps"][p]["shape"], 1e-3)
                    if d["deps"][p]["shape"] == "scaled1":
                        # k*d(x)+e on a nearly constant conditioner d is ill-conditioned (seen: k = -193, e = 60):
                        # the optimiser's 1e-8 relative parameter tolerance is amplified by (|k||d|+|e|)/scale
                        k_, e_ = [float(v) for v in da.conditional_parameters[p].parameters.values()]
                        dmax = float(np.max(np.abs(np.asarray(da.conditional_parameters[d["deps"][p]["cond"]](cv), dtype=float))))
                        tol = max(tol, 1e-6 * (abs(k_) * dmax + abs(e_)) / sc)
                    if float(np.max(np.abs(a - b))) / sc > tol:
                        run.violate("O4-row-order-invariance", f"dependence/{d['deps'][p]['shape']}", {"dim": i, "param": p, "a": [float(v) for v in da.conditional_parameters[p].parameters.values()], "b": [float(v) for v in db.conditional_parameters[p].parameters.values()], "step": step})
                        return


# --------------------------------------------------------------------------
# execution
# --------------------------------------------------------------------------


def _as_container(D, kind):
    """the same rows in the container types a caller may pass (tests and docs pass DataFrames)"""
    if kind == "list":
        return D.tolist()
    if kind == "dataframe":
        import pandas as pd

        return pd.DataFrame(D, columns=[f"v{i}" for i in range(D.shape[1])])
    if kind == "fortran":
        return np.asfortranarray(D)
    if kind == "int64":
        return D.astype(np.int64)
    return D.copy()


def _snapshot_params(model, scen):
    out = []
    for i, d in enumerate(scen["dims"]):
        if d["cond_on"] is None:
            out.append({k: float(v) for k, v in model.distributions[i].parameters.items()})
        else:
            out.append(None)
    return out


def _all_finite(model, scen):
    for i, d in enumerate(scen["dims"]):
        dist = model.distributions[i]
        if d["cond_on"] is None:
            vals = list(dist.parameters.values())
        else:
            vals = [v for par in dist.parameters_per_interval for v in par.values()]
            vals += [v for dep in dist.conditional_parameters.values() for v in dep.parameters.values()]
        if not all(math.isfinite(float(v)) for v in vals):
            return False
    return True


def execute(prop, scen):
    run = core.Run(prop, scen)
    run.signature = core.digest(
        [scen["cond"], [(d["template"], d["method"], d["weights"], sorted((p, v["shape"], v["bounds"], v.get("cond")) for p, v in d["deps"].items())) for d in scen["dims"]], [(s["kind"], s["reference"]) for s in scen["slicers"]], [(s["order"], s["round"], s["twin_perm"] is not None, (s["fault"] or {}).get("kind")) for s in scen["steps"]]]
    )
    with seams.recorded_warnings():
        D0 = make_data(scen, {**scen["steps"][0], "fault": None})
        hint = [float(np.max(D0[:, i])) for i in range(D0.shape[1])]
        for i, sp in enumerate(scen["slicers"]):
            if sp["kind"] == "width" and not sp.get("width"):
                sp["width"] = core.r6(hint[i] / sp["n_target"])
        A = build_model(scen, hint)
        B = build_model(scen, hint)
        run.event("build", [scen["cond"]], None)
        failed_before = False
        # the caller may hand the *same* fit-description list to every fit call (the model fills in
        # defaults in place, so the second call sees what the first one left)
        shared_fd_a = copy.deepcopy(fit_desc_of(scen))
        shared_fd_b = copy.deepcopy(fit_desc_of(scen))
        scenA = scen  # A's view of the declared options (changes when the caller edits his list)
        edit = scen.get("edit_filled_entry")
        edited = False
        for si, st in enumerate(scen["steps"]):
            D = make_data(scen, st)
            Db = D
            if st["twin_perm"] is not None:
                Db = D[np.random.default_rng(st["twin_perm"]).permutation(len(D))]
            pre = _snapshot_params(A, scen)
            preB = _snapshot_params(B, scen)
            omit = bool(st.get("omit_fit_desc")) and not scen.get("reuse_fit_desc") and not edit
            scen_step = scenA
            if omit:
                scen_step = copy.deepcopy(scen)
                for d_ in scen_step["dims"]:
                    d_["method"], d_["weights"] = None, None
                run.count("probe:refit-without-fit-descriptions")
            f = st["fault"]
            fail_at = [f["at"]] if f and f["kind"] == "F1" else None
            excA = excB = None
            seams.pin_global(core.h64(scen["seed"], si))
            with seams.OptimiserShim(fail_at=fail_at) as shim:
                try:
                    if st.get("clone_before"):
                        A = copy.deepcopy(A)  # the user continues with a deep copy of the (fitted or still unfitted) model
                        run.count("probe:continued-on-deep-copy")
                    if omit:
                        A.fit(_as_container(D, st.get("container", "ndarray")))
                    else:
                        A.fit(_as_container(D, st.get("container", "ndarray")), shared_fd_a if scen.get("reuse_fit_desc") else copy.deepcopy(fit_desc_of(scenA)))
                except Exception as e:  # noqa: BLE001
                    excA = e
            firedA = shim.fired
            with seams.OptimiserShim(fail_at=fail_at) as shim:
                try:
                    if omit:
                        B.fit(Db.copy(), None)
                    else:
                        B.fit(Db.copy(), shared_fd_b if scen.get("reuse_fit_desc") else copy.deepcopy(fit_desc_of(scen)))
                except Exception as e:  # noqa: BLE001
                    excB = e
            fired = bool(firedA) or (f is not None and f["kind"].startswith("F2"))
            run.event("fit", [si, st["n"], st["order"], st["round"], f], [type(excA).__name__ if excA else None, type(excB).__name__ if excB else None], [f["kind"]] if (f and (firedA or f["kind"].startswith("F2"))) else [])
            if f is not None and (firedA or f["kind"].startswith("F2")):
                run.count("fault:" + f["kind"])
                if excA is None:
                    if f["kind"] == "F1":
                        run.violate("O5-fault-swallowed", "F1", {"step": si, "fault": f})
                        return run
                    run.count("probe:rejected-data-accepted")
                else:
                    failed_before = True
                    continue
            if excA is not None or excB is not None:
                exc = excA or excB
                all_linear = all(dd["shape"] in ("poly1", "scaled1") for d in scen["dims"] for dd in d["deps"].values())
                ties_ppi = (st["round"] is not None or st.get("container") == "int64") and any(sp["kind"] == "points" for sp in scen["slicers"])
                if (excA is None) != (excB is None) and st["twin_perm"] is not None and all_linear and not ties_ppi:
                    run.violate("O4-row-order-invariance", "fit-raises-for-one-row-order", {"step": si, "excA": repr(excA)[:200], "excB": repr(excB)[:200]})
                    return run
                if isinstance(exc, (TypeError, AttributeError, KeyError, IndexError, AssertionError, NameError)):
                    run.violate("O0-fit-raises", type(exc).__name__, {"step": si, "exc": repr(exc)[:300]})
                    return run
                run.inconclusive = f"fit failed on workload: {type(exc).__name__}: {str(exc)[:80]}"
                return run
            tag = "recovery" if failed_before else ("refit" if si > 0 else "first")
            if failed_before:
                run.count("probe:clean-fit-after-failed-fit")
            if si > 0:
                run.count("probe:refit")
            if not _all_finite(A, scen) or not _all_finite(B, scen):
                run.inconclusive = "estimator returned non-finite parameters without raising"
                return run
            check_model(run, scen_step, A, D, pre, si, tag + ("/no-fit-descriptions" if omit else ""))
            if run.violations:
                return run
            if si > 0:
                check_refit_equals_fresh_fit(run, scen_step, A, D, hint, si, tag, st.get("container", "ndarray"))
                if run.violations:
                    return run
            if edited:
                # the twin was given its own list with the same None entries: it must still be fitted
                # with the documented default - whatever another caller did to the dict *he* was handed
                check_model(run, scen, B, Db, preB, si, tag + "/other-model-after-callers-edit")
                run.count("probe:other-model-fitted-after-callers-edit")
                if run.violations:
                    return run
            if edit and not edited and si == edit["after_step"] and isinstance(shared_fd_a[edit["dim"]], dict):
                shared_fd_a[edit["dim"]]["method"] = edit["method"]
                shared_fd_a[edit["dim"]]["weights"] = edit["weights"]
                scenA = copy.deepcopy(scen)
                scenA["dims"][edit["dim"]]["method"] = edit["method"]
                scenA["dims"][edit["dim"]]["weights"] = edit["weights"]
                edited = True
                run.count("probe:caller-edited-filled-fit-description")
            if st["twin_perm"] is not None and not edited:
                run.count("probe:twin-permuted-step")
                check_twins(run, scen_step if omit else scen, A, B, si)
                if run.violations:
                    return run
            failed_before = False
    return run


# --------------------------------------------------------------------------


def shrink_candidates(prop, scen):
    st = scen["steps"]
    for i in range(len(st)):
        if len(st) > 1:
            c = copy.deepcopy(scen)
            del c["steps"][i]
            yield c
    for i, s in enumerate(st):
        if s["fault"] is not None:
            c = copy.deepcopy(scen)
            c["steps"][i]["fault"] = None
            yield c
        if s["round"] is not None:
            c = copy.deepcopy(scen)
            c["steps"][i]["round"] = None
            yield c
        if s["n"] > 300:
            c = copy.deepcopy(scen)
            c["steps"][i]["n"] = max(300, s["n"] // 2)
            yield c
        if s["twin_perm"] is not None:
            c = copy.deepcopy(scen)
            c["steps"][i]["twin_perm"] = None
            yield c
        if s["order"] != "shuffled":
            c = copy.deepcopy(scen)
            c["steps"][i]["order"] = "shuffled"
            yield c
    # 3-D -> 2-D when the last dimension is not needed
    if len(scen["dims"]) == 3 and scen["cond"][1] == 0:
        c = copy.deepcopy(scen)
        c["dims"] = c["dims"][:2]
        c["cond"] = c["cond"][:2]
        c["slicers"] = c["slicers"][:2]
        yield c
    for i, d in enumerate(scen["dims"]):
        for p, dd in d["deps"].items():
            if (dd["shape"] != "poly1" or dd["bounds"] is not None) and not any(o.get("cond") == p for o in d["deps"].values()):
                c = copy.deepcopy(scen)
                c["dims"][i]["deps"][p] = {"shape": "poly1", "slope": dd["slope"], "bounds": None}
                yield c


def describe(prop):
    return {
        "rule": (
            "one run = one seeded model (2-D/3-D structure, template families, slicer kind and options, per-dimension method/weights, dependence shapes) driven through "
            "1-4 fit calls on seeded data sets (300-20000 rows; rounded / sorted / shuffled), with a twin model receiving one step's rows in another order and optional faults "
            "(estimator-rejected data, too few rows for the slicer, optimiser failure in a dependence fit) followed by a clean re-fit. distinct = distinct hash of (structure, templates, "
            "methods, weights, dependence shapes, slicer kinds/references, per-step row order/rounding/twin/fault); non-trivial = at least one successful fit was checked."
        ),
        "real": ["GlobalHierarchicalModel.fit", "ConditionalDistribution.fit", "all three IntervalSlicers", "all template distributions' estimators", "DependenceFunction fits"],
        "stub": ["OptimiserShim (counting wrapper raising the real exception type at a planned invocation)"],
        "assumptions": [
            "stand-alone reference: a fresh template built from the same constructor arguments, fitted by the harness to exactly data_intervals[k] with that dimension's method and weights (same floating-point path)",
            "rows within 1e-9 x scale of an interval edge may fall on either side (edge conventions are C10's subject)",
            "with rounded data (ties) and PointsPerIntervalSlicer, rows tying with a chunk edge may swap sides between row orders",
            "a chained dependence function evaluated from its own coefficients and the model's own conditioner must give what the object gives (1e-9)",
        ],
        "probes": ["refit", "twin-permuted-step", "clean-fit-after-failed-fit", "rejected-data-accepted", "chained-dependence-checked", "continued-on-deep-copy", "caller-edited-filled-fit-description", "other-model-fitted-after-callers-edit"],
    }
