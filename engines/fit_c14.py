"""C14 - dependence functions: bounds, optimality, dependency order.

System under simulation: a DAG of 1-3 real `DependenceFunction`s (single, chain
of 2/3, fan-in 2, fan-out 2), driven either directly (`f.fit(x, y)` in an order
the schedule chooses, with repeats) or through a real `ConditionalDistribution`
whose `parameters` dict / role assignment the schedule chooses.  Histories are
1-3 rounds with different data; fault F1 (optimiser failure at the k-th
optimiser invocation, same exception type as the real one) may hit a round and
is followed by a clean round (recovery).

Oracles are behavioural: they read only `DependenceFunction.parameters` and
evaluate the user's shape functions themselves (reference evaluation), never
private protocol flags (those are read for coverage probes only).
"""

import math
import types

import numpy as np

from sim import core, seams

NAME = "fit"

# --------------------------------------------------------------------------
# shape library (own parameters positional, conditioners keyword-only)
# --------------------------------------------------------------------------


def poly1(x, a, b):
    return a + b * x


def poly2(x, a, b, c):
    return a + b * x + c * x**2


def sqrt2(x, a, b):
    return a + b * np.sqrt(x)


def scaled1(x, k, e, *, d_of_x):
    return k * d_of_x(x) + e


def mix2(x, k, e, *, d_of_x, g_of_x):
    return k * d_of_x(x) + g_of_x(x) + e


def mix2b(x, k, m, *, d_of_x, g_of_x):
    return k * d_of_x(x) + m * g_of_x(x)


def power3(x, a, b, c):
    return a + b * x**c


def exp3(x, a, b, c):
    return a + b * np.exp(c * x)


def asymdecrease3(x, a, b, c):
    return a + b / (1 + c * x)


def lnsquare2(x, a, b):
    return np.log(a + b * np.sqrt(np.divide(x, 9.81)))


def logistics4(x, a, b, c, d):
    return a + b / (1 + np.exp(c * (x - d)))


def limited_growth2(x, a, b):
    return a * (1 - np.exp(-b * x))


def alpha3(x, a, b, c, *, d_of_x):
    return (a + b * x**c) / 2.0445 ** (1 / d_of_x(x))


def expdep(x, a, b, *, d_of_x):
    return a * np.exp(-b * x) + d_of_x(x)


# name -> (function, n_own, conditioner names, linear?, truth ranges, p0)
SHAPES = {
    "poly1": (poly1, 2, (), True, [(0.5, 3), (0.2, 2)], [1, 1]),
    "poly2": (poly2, 3, (), True, [(0.5, 3), (0.2, 2), (0.02, 0.3)], [1, 1, 1]),
    "sqrt2": (sqrt2, 2, (), True, [(0.5, 3), (0.3, 2)], [1, 1]),
    "scaled1": (scaled1, 2, ("d_of_x",), True, [(0.4, 2.5), (0.3, 3)], [1, 1]),
    "mix2": (mix2, 2, ("d_of_x", "g_of_x"), True, [(0.4, 2.5), (0.3, 3)], [1, 1]),
    "mix2b": (mix2b, 2, ("d_of_x", "g_of_x"), True, [(0.4, 2.5), (0.4, 2.5)], [1, 1]),
    "power3": (power3, 3, (), False, [(0.5, 3), (0.3, 2), (0.6, 1.6)], [1, 1, 1]),
    "exp3": (exp3, 3, (), False, [(0.5, 3), (0.3, 2), (0.05, 0.25)], [1, 1, 0.1]),
    "asymdecrease3": (asymdecrease3, 3, (), False, [(0.2, 1), (0.5, 3), (0.2, 1.5)], [1, 1, 1]),
    "lnsquare2": (lnsquare2, 2, (), False, [(1.5, 5), (1, 6)], [1, 1]),
    "logistics4": (logistics4, 4, (), False, [(0.5, 2), (1, 3), (-1.5, -0.5), (3, 7)], [1, 1, -1, 5]),
    "limited_growth2": (limited_growth2, 2, (), False, [(1, 4), (0.15, 0.8)], [1, 1]),
    "alpha3": (alpha3, 3, ("d_of_x",), False, [(0.5, 3), (0.3, 2), (0.6, 1.6)], [1, 1, 1]),
    "expdep": (expdep, 2, ("d_of_x",), False, [(0.5, 3), (0.1, 0.8)], [1, 0.5]),
}

LINEAR_BASE = ["poly1", "poly2", "sqrt2"]
NONLIN_BASE = ["power3", "exp3", "asymdecrease3", "lnsquare2", "logistics4", "limited_growth2"]

DAGS = {
    # kind -> list of (conditioner indices) per function index
    "single": [()],
    "chain2": [(), (0,)],
    "chain3": [(), (0,), (1,)],
    "fanin2": [(), (), (0, 1)],
    "fanout2": [(), (0,), (0,)],
}


def make_func(shape, p0):
    """A fresh function object of the given shape whose positional defaults are
    p0 (so DependenceFunction starts from p0)."""
    f = SHAPES[shape][0]
    g = types.FunctionType(f.__code__, f.__globals__, f.__name__, tuple(p0), f.__closure__)
    g.__kwdefaults__ = None
    return g


# --------------------------------------------------------------------------
# reference evaluation (independent of DependenceFunction.__call__)
# --------------------------------------------------------------------------


def ref_eval(spec, j, x, params, own=None):
    """Value of function j at x with own parameters `own` (default params[j])
    and every conditioner evaluated from `params` by this same routine."""
    fs = spec["funcs"][j]
    shape = SHAPES[fs["shape"]]
    kw = {}
    for name, ci in zip(shape[2], fs["conds"]):
        kw[name] = lambda xx, ci=ci: ref_eval(spec, ci, xx, params)
    p = params[j] if own is None else own
    with np.errstate(all="ignore"):
        return np.asarray(shape[0](np.asarray(x, dtype=float), *p, **kw), dtype=float)


def round_data(spec, rnd):
    """(x, [y_j]) of a round: y_j = truth_j(x) + noise."""
    rng = np.random.default_rng(rnd["xseed"])
    n = rnd["n"]
    if rnd.get("xgrid", "centres") == "centres":
        x = 0.25 + 0.5 * np.arange(n) * rnd.get("xstep", 1.0) + 0.25
    else:
        x = np.sort(rng.uniform(0.4, 10.0, size=n))
        if rnd.get("xgrid") == "shuffled":
            rng.shuffle(x)
    truth = rnd["truth"]
    ys = []
    for j in range(len(spec["funcs"])):
        y = ref_eval(spec, j, x, truth) * rnd.get("yscale", 1.0)
        amp = float(np.mean(np.abs(y))) or 1.0
        y = y + rnd["noise"] * amp * rng.standard_normal(n)
        ys.append(y)
    return x, ys


def weight_vector(kind, x, y):
    if kind == "y":
        return np.asarray(y, dtype=float)
    if kind == "x":
        return np.asarray(x, dtype=float)
    if kind == "one":
        return np.ones(len(x))
    if kind == "negx":
        return -np.asarray(x, dtype=float)
    if kind == "alt":
        return (1.0 + 0.3 * np.asarray(x, dtype=float)) * np.where(np.arange(len(x)) % 2 == 0, 1.0, -1.0)
    raise ValueError(kind)


WEIGHT_FUNCS = {
    "y": lambda x, y: y,
    "x": lambda x, y: x,
    "one": lambda x, y: np.ones(len(x)),
    # weights enter the objective squared (as sigma or as factor, see objective_weights): their sign
    # carries no meaning, and callables that return negative values (y on data that cross zero, a
    # centred quantity) are legitimate
    "negx": lambda x, y: -np.asarray(x, dtype=float),
    "alt": lambda x, y: (1.0 + 0.3 * np.asarray(x, dtype=float)) * np.where(np.arange(len(x)) % 2 == 0, 1.0, -1.0),
}


def objective_weights(kind, x, y):
    """Candidate per-observation weights W (objective sum W*(f-y)^2).  The
    docstring ('linearly weight the observations with y_i') and the
    implementation (sigma=weights, i.e. 1/w^2) disagree and the property does
    not choose, so a result optimal under any of these readings is accepted."""
    if kind is None:
        return [np.ones(len(x))]
    w = weight_vector(kind, x, y)
    with np.errstate(all="ignore"):
        return [1.0 / w**2, np.abs(w), w**2]


def make_constraints(cons):
    if cons is None:
        return None
    items = []
    for it in cons["items"]:
        coef = np.array(it["coef"], dtype=float)
        rhs = float(it["rhs"])
        items.append({"type": "ineq", "fun": (lambda p, c=coef, r=rhs: float(np.dot(c, p) + r))})
    if cons["kind"] == "dict":
        return items[0]
    return items


# --------------------------------------------------------------------------
# generation
# --------------------------------------------------------------------------


def tier_config(prop, tier):
    if tier == "quick":
        return {"runs": 3000, "chunk": 40, "cap_s": 60, "det_seeds": 8, "shrink_budget": 200}
    return {"budget_s": 1200, "chunk": 60, "cap_s": 60, "det_seeds": 48, "shrink_budget": 300, "grace_s": 1200}


def _gen_bounds(S, truth, p0, active_ok):
    """Bounds per own parameter such that p0 is strictly inside; some bounds are
    active (exclude the truth) when active_ok."""
    out = []
    kinds = []
    for t, s in zip(truth, p0):
        k = S.wpick([("none", 3), ("lo", 3), ("hi", 1), ("both", 2)])
        lo = hi = None
        lo_in = min(t, s) - S.uni(0.5, 3) * (abs(t) + abs(s) + 0.5)
        hi_in = max(t, s) + S.uni(0.5, 3) * (abs(t) + abs(s) + 0.5)
        active = active_ok and S.chance(0.25) and abs(t - s) > 0.15
        if k in ("lo", "both"):
            lo = lo_in
            if active and t < s:
                lo = t + S.uni(0.3, 0.8) * (s - t)  # truth below the lower bound
        if k in ("hi", "both"):
            hi = hi_in
            if active and t > s:
                hi = s + S.uni(0.2, 0.7) * (t - s)  # truth above the upper bound
        if k == "lo" and S.chance(0.5) and min(t, s) > 0 and not active:
            lo = 0.0  # the (0, None) bound of every predefined model
        out.append([None if lo is None else core.r6(lo), None if hi is None else core.r6(hi)])
        kinds.append(k + ("*" if active else ""))
    return out, kinds


def generate(prop, seed, tier):
    S = core.SeedStream(seed)
    dag = S.wpick([("single", 3), ("chain2", 4), ("chain3", 3), ("fanin2", 4), ("fanout2", 2)])
    struct = DAGS[dag]
    nf = len(struct)
    linear_run = S.chance(0.6)
    mode = "cond" if (nf <= 3 and S.chance(0.35)) else "direct"
    funcs = []
    for j, conds in enumerate(struct):
        if len(conds) == 0:
            shape = S.pick(LINEAR_BASE if linear_run else (NONLIN_BASE if S.chance(0.8) else LINEAR_BASE))
        elif len(conds) == 1:
            shape = "scaled1" if linear_run else S.pick(["alpha3", "expdep", "scaled1"])
        else:
            shape = S.pick(["mix2", "mix2b"])
        p0 = list(SHAPES[shape][5])
        if S.chance(0.4):
            p0 = [core.r6(v * S.uni(0.6, 1.6)) for v in p0]
        funcs.append({"shape": shape, "conds": list(conds), "p0": p0, "bounds": None, "weights": None, "constraints": None})
        if len(conds) == 2 and S.chance(0.5):
            funcs[-1]["kw_order"] = [1, 0]
    # a conditioner used as denominator/exponent (alpha3) must stay positive: its
    # shape's truth ranges are positive by construction.

    n_rounds = S.wpick([(1, 5), (2, 4), (3, 2)])
    n_own_max = max(SHAPES[f["shape"]][1] for f in funcs)
    rounds = []
    # data far below / above the unfitted defaults (p0 ~ 1) make a premature or
    # stale fit land on the bounds; only for linear DAGs (exponents stay sane)
    yscale = S.wpick([(1.0, 10), (0.1, 4), (0.03, 4), (10.0, 2), (1e3, 1), (1e5, 1), (1e-3, 1), (1e-6, 0.7), (1e-9, 0.7)]) if linear_run else 1.0
    for r in range(n_rounds):
        truth = []
        for f in funcs:
            rng_ = SHAPES[f["shape"]][4]
            truth.append([core.r6(S.uni(a, b)) for a, b in rng_])
        n = S.int(max(3, n_own_max + 1), 20)
        if linear_run and S.chance(0.3 if yscale >= 1e3 else 0.08):
            # exactly as many support points as parameters: the fit interpolates (more often on large
            # data, where the interpolating coefficients differ by orders of magnitude)
            n = max(2, n_own_max)
        noise = S.wpick([(0.0, 2), (0.001, 2), (0.02, 3), (0.08, 2)])
        rnd = {
            "truth": truth,
            "n": n,
            "noise": noise,
            "xseed": S.sub("x", r),
            "xgrid": S.wpick([("centres", 3), ("random", 2), ("shuffled", 1)]) if mode == "direct" else "centres",
            "xstep": core.r6(S.uni(0.6, 1.6)),
            "yscale": core.r6(yscale),
            "fail_at": None,
            "container": S.wpick([("ndarray", 4), ("list", 2), ("tuple", 1)]),
            "clone_before": S.chance(0.12),
        }
        # order of direct fit calls: a permutation, sometimes with repeats
        order = S.perm(nf)
        if S.chance(0.25):
            order = order + [S.pick(range(nf)) for _ in range(S.int(1, 2))]
        if S.chance(0.3):
            order = sorted(range(nf), reverse=S.chance(0.6))
        rnd["order"] = order
        rounds.append(rnd)
        yscale *= S.pick([2.0, 3.0, 0.4, 0.5])
    # bounds / weights / constraints (decided against round-0 truth)
    for j, f in enumerate(funcs):
        t0 = [v * rounds[0]["yscale"] for v in rounds[0]["truth"][j]] if False else rounds[0]["truth"][j]
        is_lin = SHAPES[f["shape"]][3]
        bsel = S.wpick([("none", 4), ("gen", 4), ("pos", 3)])
        if bsel == "gen":
            f["bounds"], f["bound_kinds"] = _gen_bounds(S, t0, f["p0"], active_ok=is_lin)
        elif bsel == "pos" and all(v > 0 for v in t0) and all(v > 0 for v in f["p0"]):
            # the pattern of every predefined model: (0, None) on the positive parameters
            f["bounds"] = [[0.0, None] for _ in t0]
            f["bound_kinds"] = ["pos"] * len(t0)
        if S.chance(0.25):
            f["weights"] = S.pick(["y", "x", "one", "y", "x", "negx", "alt"])
        if is_lin and f["weights"] is None and S.chance(0.18):
            # linear inequality constraint(s) coef.p + rhs >= 0, active or inactive
            nown = SHAPES[f["shape"]][1]
            items = []
            for _ in range(S.int(1, 2)):
                coef = [0.0] * nown
                i = S.int(0, nown - 1)
                sgn = S.pick([1.0, -1.0])
                coef[i] = sgn
                t, s = t0[i], f["p0"][i]
                if S.chance(0.5) and abs(t - s) > 0.15:
                    lim = s + S.uni(0.3, 0.7) * (t - s)  # separates p0 (feasible) from truth
                    # sgn*(p - lim) >= 0 must hold at p0:
                    sg = 1.0 if s > lim else -1.0
                    coef[i] = sg
                    rhs = -sg * lim
                else:
                    lim = (min(t, s) - 1.0) if sgn > 0 else (max(t, s) + 1.0)
                    rhs = -sgn * lim
                items.append({"coef": coef, "rhs": core.r6(rhs)})
            f["constraints"] = {"kind": S.pick(["dict", "list"]) if len(items) == 1 else "list", "items": items}
    # the caller edits the public `bounds` of a function between two fits ("Consider choosing
    # different bounds."): the next fit has to honour the bounds as they are then
    for r in range(1, n_rounds):
        if S.chance(0.2):
            j = S.int(0, nf - 1)
            f = funcs[j]
            nb, kinds = _gen_bounds(S, rounds[r]["truth"][j], f["p0"], active_ok=SHAPES[f["shape"]][3])
            if f["bounds"] is None and S.chance(0.5):
                continue
            rounds[r]["set_bounds"] = {"func": j, "bounds": nb, "kinds": kinds, "how": S.pick(["assign", "items"]) if f["bounds"] is not None else "assign"}
    # Data ten and more orders of magnitude below the start parameters are kept for single functions
    # without constraints: all their parameters then have the magnitude of the data.  With a
    # conditioner of order one next to an offset of order 1e-9, scipy's relative step criterion
    # (xtol, x_scale = 1) is decided by the large parameter alone, and SLSQP's finite-difference step
    # of 1.5e-8 cannot resolve such parameters at all (see DESIGN.md section 0a, small end of the
    # known finding) - workloads that decide nothing about virocon.
    if nf > 1 or any(f["constraints"] is not None for f in funcs):
        for rnd in rounds:
            if rnd["yscale"] < 1e-4:
                rnd["yscale"] = core.r6(rnd["yscale"] * 1e6)
    # faults: F1 in at most one non-final round, always followed by a clean round
    if n_rounds >= 2 and S.chance(0.45):
        r = S.int(0, n_rounds - 2)
        rounds[r]["fail_at"] = S.int(0, nf + 1)
    scen = {"engine": NAME, "property": prop, "seed": seed, "dag": dag, "mode": mode, "funcs": funcs, "rounds": rounds}
    if mode == "direct" and nf > 1 and S.chance(0.25):
        # some functions are only declared (constructed) right before their first fit call - possibly
        # after a function they use has been fitted already
        scen["late"] = sorted(j for j in range(nf) if S.chance(0.6))
    if mode == "cond":
        scen["roles"] = S.perm(nf)  # function j sits under template parameter roles[j]
        scen["dict_order"] = S.perm(nf)
        scen["stub_fixed_first"] = S.chance(0.5)
        roots = [j for j in range(nf) if not funcs[j]["conds"] and any(j in f["conds"] for f in funcs)]
        if roots and S.chance(0.3):
            # a function used by the conditional distribution's functions that is not one of them: the caller
            # fits it himself before he fits the conditional distribution
            scen["external"] = [S.pick(roots)]
    return scen


# --------------------------------------------------------------------------
# building the real objects
# --------------------------------------------------------------------------


def build(scen, late=()):
    """all functions of the DAG; those listed in `late` are left out (None) and constructed by
    build_late right before their first fit call"""
    from virocon import DependenceFunction

    objs = []
    late = set(late)
    for j, fs in enumerate(scen["funcs"]):
        if any(c in late for c in fs["conds"]):
            late.add(j)  # a function cannot be declared before the functions it uses
        if j in late:
            objs.append(None)
            continue
        shape = SHAPES[fs["shape"]]
        kw = {}
        names = list(shape[2])
        idx = list(range(len(names)))
        if fs.get("kw_order"):
            idx = fs["kw_order"]
        for i in idx:
            kw[names[i]] = objs[fs["conds"][i]]
        bounds = None
        if fs["bounds"] is not None:
            bounds = [(lo, hi) for lo, hi in fs["bounds"]]
        weights = WEIGHT_FUNCS[fs["weights"]] if fs["weights"] else None
        cons = make_constraints(fs["constraints"])
        objs.append(DependenceFunction(make_func(fs["shape"], fs["p0"]), bounds=bounds, constraints=cons, weights=weights, **kw))
    return objs


def build_late(scen, objs, j):
    """construct function j now (its conditioners first, if they do not exist yet)"""
    from virocon import DependenceFunction

    fs = scen["funcs"][j]
    for c in fs["conds"]:
        if objs[c] is None:
            build_late(scen, objs, c)
    shape = SHAPES[fs["shape"]]
    names = list(shape[2])
    idx = fs.get("kw_order") or list(range(len(names)))
    kw = {names[i]: objs[fs["conds"][i]] for i in idx}
    bounds = None if fs["bounds"] is None else [(lo, hi) for lo, hi in fs["bounds"]]
    weights = WEIGHT_FUNCS[fs["weights"]] if fs["weights"] else None
    objs[j] = DependenceFunction(make_func(fs["shape"], fs["p0"]), bounds=bounds, constraints=make_constraints(fs["constraints"]), weights=weights, **kw)


def _stub_template(n, fixed_first=False):
    """A user-defined Distribution whose 'fit' takes its n parameters directly
    from the data handed to it.  It only transports chosen y-values through the
    real ConditionalDistribution.fit; Distribution is an extensible public ABC.
    With fixed_first the family has one more parameter, fixed, that comes first in
    its parameter order (like a fixed location in front of a conditional scale)."""
    from virocon.distributions import Distribution

    names = [f"p{i}" for i in range(n)]

    class StubDist(Distribution):
        def __init__(self):
            if fixed_first:
                self.q0 = 7.25
                self.f_q0 = 7.25
            for nm in names:
                setattr(self, nm, 1.0)
                setattr(self, "f_" + nm, None)

        @property
        def parameters(self):
            out = {"q0": self.q0} if fixed_first else {}
            out.update({nm: getattr(self, nm) for nm in names})
            return out

        def cdf(self, x, *a, **k):
            return np.zeros_like(np.asarray(x, dtype=float))

        pdf = icdf = cdf

        def draw_sample(self, n, *a, random_state=None, **k):
            return np.zeros(n)

        def _fit_mle(self, data):
            for nm, v in zip(names, data):
                setattr(self, nm, float(v))

        def _fit_lsq(self, data, weights):
            raise NotImplementedError()

    return StubDist(), names


# --------------------------------------------------------------------------
# oracles
# --------------------------------------------------------------------------


def _cond_layout(scen):
    """functions carried by the ConditionalDistribution (the others - 'external' ones, used by functions
    inside - are fitted directly by the caller before) and their position among the stub's parameters"""
    nf = len(scen["funcs"])
    ext = set(scen.get("external") or ())
    internal = [j for j in range(nf) if j not in ext]
    order = sorted(internal, key=lambda j: scen["roles"][j])
    return internal, {j: order.index(j) for j in internal}


def params_of(objs):
    return [None if o is None else [float(v) for v in o.parameters.values()] for o in objs]


def _ssq(spec, j, x, y, params, W, own=None):
    f = ref_eval(spec, j, x, params, own)
    with np.errstate(all="ignore"):
        return float(np.sum(W * (f - y) ** 2))


def _feasible(fs, p, slack=0.0):
    if fs["bounds"] is not None:
        for v, (lo, hi) in zip(p, fs["bounds"]):
            if lo is not None and v < lo - slack:
                return False
            if hi is not None and v > hi + slack:
                return False
    if fs["constraints"] is not None:
        for it in fs["constraints"]["items"]:
            if float(np.dot(it["coef"], p) + it["rhs"]) < -slack:
                return False
    return True


def _project(fs, p):
    q = list(p)
    if fs["bounds"] is not None:
        for i, (lo, hi) in enumerate(fs["bounds"]):
            if lo is not None and q[i] < lo:
                q[i] = lo
            if hi is not None and q[i] > hi:
                q[i] = hi
    return q


def _design(spec, j, x, params):
    """Design matrix of a linear-in-own-parameters shape: f(p) = f(0) + A p."""
    n_own = SHAPES[spec["funcs"][j]["shape"]][1]
    f0 = ref_eval(spec, j, x, params, [0.0] * n_own)
    cols = []
    for i in range(n_own):
        e = [0.0] * n_own
        e[i] = 1.0
        cols.append(ref_eval(spec, j, x, params, e) - f0)
    return np.array(cols).T, f0


TOL = {"lm": (1e-4, 1e-10), "trf": (1e-2, 2e-5), "slsqp": (1e-2, 1e-2)}
TOL_O4_LM = (1e-6, 1e-10)
TOL_NONLINEAR = (1e-2, 1e-6)


def _calib(kind, site, rel, rel_y, absd):
    import os

    if os.environ.get("VERIF_CALIB") and rel > 0:
        with open(f"{os.environ['VERIF_CALIB']}.{os.getpid()}", "a") as f:
            f.write(f"{kind} {site} {rel:.4e} {rel_y:.4e} {absd:.4e}\n")


def _far_from_start(spec, j, x, y, params, yscale):
    """data scale, or (linear shapes) the magnitude of the least-squares solution, relative to
    the start parameters"""
    fs = spec["funcs"][j]
    if yscale >= 1e3:
        return True
    if not SHAPES[fs["shape"]][3]:
        return False
    try:
        A, f0 = _design(spec, j, x, params)
        if not np.all(np.isfinite(A)):
            return False
        ref = _constrained_ref(fs, A, np.asarray(y, dtype=float) - f0)
    except Exception:  # noqa: BLE001
        return False
    if ref is None:
        return False
    return float(np.max(np.abs(ref))) >= 1e3 * max(1.0, float(np.max(np.abs(fs["p0"]))))


def check_function(run, spec, j, x, y, params, tag, yscale=1.0):
    """O1, O3, O4 for function j against its round data, given the final
    parameters of the whole DAG."""
    from scipy.optimize import lsq_linear

    fs = spec["funcs"][j]
    shape = SHAPES[fs["shape"]]
    p = params[j]
    path = "slsqp-constrained" if fs["constraints"] is not None else ("curve_fit-bounded" if fs["bounds"] is not None else "curve_fit-unbounded")
    if fs["weights"]:
        path += "-weighted"
    if fs["constraints"] is not None and _far_from_start(spec, j, x, y, params, yscale):
        # an input class of its own, because the SLSQP path is known to lose the optimum there
        # (known_findings.json): the data, or the least-squares solution, lie at least 1e3 times
        # the start parameters (which are of order one) away
        path += "-far-from-start"
    site = f"{path}/{spec['dag']}"
    ynorm2 = float(np.sum(np.asarray(y) ** 2)) or 1.0
    constrained = fs["constraints"] is not None
    if not all(math.isfinite(v) for v in p):
        run.violate("O1-finite", site, {"func": j, "params": p})
        return
    # ---- O1 bounds / constraints ------------------------------------------------
    if fs["bounds"] is not None:
        for i, (v, (lo, hi)) in enumerate(zip(p, fs["bounds"])):
            sl = 1e-12 * (1 + abs(v))
            if (lo is not None and v < lo - sl) or (hi is not None and v > hi + sl):
                run.violate("O1-bounds", site, {"func": j, "param": i, "value": v, "bounds": [lo, hi]})
                return
    if constrained:
        for ci, it in enumerate(fs["constraints"]["items"]):
            c = float(np.dot(it["coef"], p) + it["rhs"])
            # SLSQP keeps constraints to its internal accuracy (observed <= 3e-7); a
            # declared constraint counts as violated beyond 1e-5 (relative to its scale)
            if c < -1e-5 * (1 + abs(it["rhs"]) + float(np.dot(np.abs(it["coef"]), np.abs(p)))):
                run.violate("O1-constraint", site, {"func": j, "constraint": ci, "c(p)": c, "params": p})
                return
    if fs["shape"] == "alpha3":
        # alpha3 divides by its conditioner in an exponent (Weibull scale over 2.0445**(1/beta)):
        # where the fitted conditioner comes near zero or turns negative on the support points the
        # shape has left its domain and the objective spans tens of orders of magnitude (seen in the
        # thorough tier: S = 1e33 at the returned point, 6e52 at the start parameters); such a
        # workload decides nothing about the fit
        with np.errstate(all="ignore"):
            dvals = ref_eval(spec, fs["conds"][0], x, params)
        if not np.all(np.isfinite(dvals)) or float(np.min(dvals)) < 0.05:
            run.count("o3_skipped_conditioner_outside_domain")
            return
    if fs["shape"] == "asymdecrease3":
        # a + b / (1 + c x) has a pole at x = -1/c; a fit that ends with the pole between the support
        # points (seen in the thorough tier: c = -0.31, support up to 26) sits on an objective that
        # jumps whenever the pole crosses a support point - no neighbourhood to be optimal in
        with np.errstate(all="ignore"):
            den = 1.0 + float(p[2]) * np.asarray(x, dtype=float)
        if np.min(den) <= 0.05 <= np.max(den) or np.min(den) <= 0.0:
            run.count("o3_skipped_pole_inside_support")
            return
    Ws = objective_weights(fs["weights"], x, y)
    # tolerance classes (calibrated on the repaired tree over 1.6e4 runs, >= 10x the
    # largest deviation seen, then frozen; see DESIGN.md section 3/C14):
    #   curve_fit without bounds (LM): converges to ~1e-13 |y|^2
    #   curve_fit with bounds (TRF) : interior-point, stops ~4e-3 S / 7e-7 |y|^2 short of an active bound
    #   SLSQP (constraints)           : stops up to ~9e-4 |y|^2 short on ill-conditioned shapes (poly2), still reporting success
    bounded = fs["bounds"] is not None
    rel, absl = TOL["slsqp" if constrained else ("trf" if bounded else "lm")]
    if not shape[3]:
        # nonlinear shapes: Levenberg-Marquardt may stop in a flat valley (seen:
        # logistics4 on 6 points, slope c = -48, 1.2e-4 S / 7e-9 |y|^2 left after a
        # 1 % step); a fit against a stale conditioner or stale data is off by O(1)
        rel, absl = max(rel, TOL_NONLINEAR[0]), max(absl, TOL_NONLINEAR[1])
    absl *= ynorm2
    if constrained:
        # SLSQP with finite-difference gradients resolves the error only relative
        # to its value at the start parameters (seen: S = 1.8e-3 = 1.8e-7 S(p0) left
        # on 4 points of a parabola while reporting success); judged accordingly
        S_start = _ssq(spec, j, x, y, params, np.ones(len(x)), list(fs["p0"]))
        if math.isfinite(S_start):
            absl = max(absl, 1e-4 * S_start)
    # ---- O3 local optimality -------------------------------------------------------
    best = None  # candidate objective with the smallest worst-case excess
    for W in Ws:
        if not np.all(np.isfinite(W)):
            continue
        wn = float(np.max(W)) or 1.0
        S0 = _ssq(spec, j, x, y, params, W)
        if not math.isfinite(S0):
            continue
        worst = {"excess": -1.0}
        for i in range(len(p)):
            scale = 1.0
            if fs["bounds"] is not None:
                lo, hi = fs["bounds"][i]
                if lo is not None and hi is not None:
                    scale = hi - lo
            for fac in (1e-3, 1e-2):
                for sgn in (1.0, -1.0):
                    q = list(p)
                    q[i] = p[i] + sgn * fac * (abs(p[i]) + scale)
                    q = _project(fs, q)
                    if q == list(p) or not _feasible(fs, q):
                        continue
                    S1 = _ssq(spec, j, x, y, params, W, q)
                    if not math.isfinite(S1):
                        continue
                    drop = S0 - S1
                    # excess > 1 <=> the drop exceeds the tolerance rel*S + abs
                    excess = drop / (rel * S0 + absl * wn)
                    if excess > worst["excess"]:
                        worst = {"excess": excess, "param": i, "step": sgn * fac, "S": S0, "S_perturbed": S1, "drop": drop, "rel": drop / (S0 + 1e-300), "rel_y": drop / (ynorm2 * wn)}
        run.count("o3_evaluations")
        if best is None or worst["excess"] < best["excess"]:
            best = worst
        if worst["excess"] <= 1.0:
            break
    if best is not None and best["excess"] > 0:
        _calib("o3", site, best["rel"], best["rel_y"], best["drop"])
    if best is not None and best["excess"] > 1.0 and not shape[3]:
        # a nonlinear least-squares problem need not have a minimiser: when the data lie outside
        # the family the infimum can sit at infinity (seen: lnsquare2 on 9x-scaled data, b -> 4.7e6
        # and still falling, scipy stopping on its absolute gradient test).  No returned point can
        # then be locally optimal, so a parameter that ran away by more than 1e4 times its start
        # scale and improves further *away from zero*, with no bound in that direction, is counted
        # and not judged
        i = best["param"]
        away = (best["step"] > 0) == (p[i] > 0)
        free = True
        if fs["bounds"] is not None:
            lo, hi = fs["bounds"][i]
            free = (hi is None) if p[i] > 0 else (lo is None)
        if abs(p[i]) > 1e4 * (1.0 + abs(fs["p0"][i])) and away and free:
            run.count("o3_skipped_runaway_no_minimiser")
            return
    if best is not None and best["excess"] > 1.0:
        run.violate("O3-local-opt", site, {"func": j, "params": p, **best})
        return
    # ---- O4 unique linear least squares -------------------------------------------
    if shape[3]:
        A, f0 = _design(spec, j, x, params)
        if not np.all(np.isfinite(A)):
            return
        best = None
        for W in Ws:
            if not np.all(np.isfinite(W)):
                continue
            sw = np.sqrt(W)
            Aw = A * sw[:, None]
            bw = (np.asarray(y) - f0) * sw
            cond = np.linalg.cond(Aw)
            if not math.isfinite(cond) or cond > 1e6:
                run.count("o4_skipped_illconditioned")
                return
            if constrained:
                ref = _constrained_ref(fs, Aw, bw)
                if ref is None:
                    return
            elif bounded:
                lo = [(-np.inf if b[0] is None else b[0]) for b in fs["bounds"]]
                hi = [(np.inf if b[1] is None else b[1]) for b in fs["bounds"]]
                ref = lsq_linear(Aw, bw, bounds=(lo, hi), method="bvls", tol=1e-14).x
            else:
                ref = np.linalg.lstsq(Aw, bw, rcond=None)[0]
            S_ref = float(np.sum((Aw @ ref - bw) ** 2))
            S_fin = float(np.sum((Aw @ np.array(p) - bw) ** 2))
            wn = float(np.max(W)) or 1.0
            tol_rel, tol_abs = (rel, absl) if (constrained or bounded) else (TOL_O4_LM[0], TOL_O4_LM[1] * ynorm2)
            run.count("o4_comparisons")
            excess = (S_fin - S_ref) / (tol_rel * S_ref + tol_abs * wn)
            cand = {"excess": excess, "params": p, "lsq_solution": [float(v) for v in ref], "S": S_fin, "S_lsq": S_ref, "rel": (S_fin - S_ref) / (S_ref + 1e-300), "rel_y": (S_fin - S_ref) / (ynorm2 * wn), "cond": float(cond), "pdev": float(np.max(np.abs(np.array(p) - ref)) / max(float(np.max(np.abs(ref))), 1e-300))}
            if best is None or excess < best["excess"]:
                best = cand
            if excess <= 1.0:
                break
        if best is not None and best["excess"] > 0:
            _calib("o4", site, best["rel"], best["rel_y"], best["S"] - best["S_lsq"])
        if best is not None:
            _calib("o4p", site + ("/w" if len(Ws) > 1 else ""), best["pdev"], best["cond"], best["excess"])
        if best is not None and best["excess"] > 1.0:
            run.violate("O4-linear-lsq", site, {"func": j, **best})


def _constrained_ref(fs, Aw, bw):
    """Reference for linear LSQ with simple one-coordinate constraints and bounds:
    every generated constraint is of the form +-(p_i - lim) >= 0, i.e. a bound, so
    the problem is again a bounded linear least-squares problem."""
    n = Aw.shape[1]
    lo = np.full(n, -np.inf)
    hi = np.full(n, np.inf)
    if fs["bounds"] is not None:
        for i, (a, b) in enumerate(fs["bounds"]):
            if a is not None:
                lo[i] = a
            if b is not None:
                hi[i] = b
    for it in fs["constraints"]["items"]:
        nz = [i for i, c in enumerate(it["coef"]) if c != 0]
        if len(nz) != 1:
            return None
        i = nz[0]
        c = it["coef"][i]
        lim = -it["rhs"] / c
        if c > 0:
            lo[i] = max(lo[i], lim)
        else:
            hi[i] = min(hi[i], lim)
    if np.any(lo >= hi):
        return None
    from scipy.optimize import lsq_linear

    return lsq_linear(Aw, bw, bounds=(lo, hi), method="bvls", tol=1e-14).x


# --------------------------------------------------------------------------
# execution
# --------------------------------------------------------------------------


def _topo_reference_completes(scen, rnd):
    """Does a fresh DAG fitted in topological order on this round's data
    complete?  (reference history for O7)"""
    try:
        objs = build(scen)
        x, ys = round_data(scen, rnd)
        for j in range(len(objs)):
            objs[j].fit(x, ys[j])
        return True
    except Exception:
        return False


def check_order_independence(run, scen, rnd, x, ys, params):
    """O5: whatever the history, the state at the end of a round equals - within
    optimiser tolerance, judged on the fitted function values - the state of a
    fresh DAG fitted once in dependency order to this round's data."""
    try:
        ref_objs = build(scen)
        for j in range(len(ref_objs)):
            ref_objs[j].fit(x, ys[j])
    except Exception:
        run.count("o5_reference_failed")
        return
    ref_params = params_of(ref_objs)
    for j in range(len(ref_objs)):
        fs = scen["funcs"][j]
        f_fin = ref_eval(scen, j, x, params)
        f_ref = ref_eval(scen, j, x, ref_params)
        if not (np.all(np.isfinite(f_fin)) and np.all(np.isfinite(f_ref))):
            continue
        scale = float(np.max(np.abs(ys[j]))) or 1.0
        dev = float(np.max(np.abs(f_fin - f_ref))) / scale
        run.count("o5_comparisons")
        _calib("o5", ("slsqp" if fs["constraints"] else "curve_fit") + "/" + scen["dag"], dev, dev, dev)
        if dev > TOL_O5:
            path = "slsqp-constrained" if fs["constraints"] is not None else ("curve_fit-bounded" if fs["bounds"] is not None else "curve_fit-unbounded")
            if fs["constraints"] is not None and _far_from_start(scen, j, x, ys[j], params, rnd.get("yscale", 1.0)):
                path += "-far-from-start"  # same input class as in check_function
            run.violate("O5-order-independence", f"{path}/{scen['dag']}", {"func": j, "max_rel_dev_of_fitted_values": dev, "params": params[j], "params_dependency_order": ref_params[j]})
            return


TOL_O5 = 1e-3


def _is_linear_dag(scen):
    return all(SHAPES[f["shape"]][3] for f in scen["funcs"])


def _proto_state(objs):
    out = []
    for o in objs:
        out.append((bool(getattr(o, "_may_fit", None)), len(getattr(o, "_fitted_conditioners", ()) or ()), hasattr(o, "x")))
    return tuple(out)


def execute(prop, scen):
    run = core.Run(prop, scen)
    nf = len(scen["funcs"])
    lin = _is_linear_dag(scen)
    run.signature = core.digest(
        [
            scen["dag"],
            scen["mode"],
            [(f["shape"], f.get("kw_order"), f.get("bound_kinds"), f["weights"], None if f["constraints"] is None else f["constraints"]["kind"]) for f in scen["funcs"]],
            [(r["order"] if scen["mode"] == "direct" else None, r["fail_at"]) for r in scen["rounds"]],
            scen.get("roles"),
            scen.get("dict_order"),
        ]
    )
    with seams.recorded_warnings():
        objs = build(scen, tuple(scen.get("late") or ()))  # construction of a generated DAG must not fail
        cond = None
        if scen["mode"] == "cond":
            from virocon.distributions import ConditionalDistribution

            internal, pos = _cond_layout(scen)
            tmpl, names = _stub_template(len(internal), bool(scen.get("stub_fixed_first")))
            pdict = {}
            for j in scen["dict_order"]:
                if j in pos:
                    pdict[names[pos[j]]] = objs[j]
            cond = ConditionalDistribution(tmpl, pdict)
        run.event("build", [scen["dag"], scen["mode"]], params_of(objs))
        dirty = False
        declared = scen  # the description as declared at this point of the history (bounds may be edited)
        for ri, rnd in enumerate(scen["rounds"]):
            x, ys = round_data(scen, rnd)
            if rnd.get("clone_before") and ri > 0:
                # the user continues with a deep copy of the whole (linked) structure
                import copy as _copy

                if cond is not None:
                    cond = _copy.deepcopy(cond)
                    objs_by_name = {names[pos[j]]: j for j in internal}
                    old_objs = objs
                    objs = [None] * nf
                    for nm, dep in cond.conditional_parameters.items():
                        objs[objs_by_name[nm]] = dep
                    for j in range(nf):
                        if objs[j] is None:
                            # an external function: the copy inside the copied structure
                            for k_ in internal:
                                for key_, cj in zip(SHAPES[scen["funcs"][k_]["shape"]][2], scen["funcs"][k_]["conds"]):
                                    if cj == j:
                                        objs[j] = objs[k_].dependent_parameters[key_]
                            if objs[j] is None:
                                objs[j] = old_objs[j]
                else:
                    objs = list(_copy.deepcopy(tuple(objs)))
                run.count("probe:continued-on-deep-copy")
            if ri > 0 and cond is None:
                for j_ in range(nf):
                    if objs[j_] is None:
                        build_late(scen, objs, j_)  # a failed first round may have ended before everything was declared
            if rnd.get("set_bounds"):
                import copy as _copy

                sb = rnd["set_bounds"]
                declared = _copy.deepcopy(declared)
                declared["funcs"][sb["func"]]["bounds"] = [list(b) for b in sb["bounds"]]
                declared["funcs"][sb["func"]]["bound_kinds"] = sb["kinds"]
                tgt = objs[sb["func"]]
                if sb["how"] == "items" and tgt.bounds is not None:
                    for i, (lo, hi) in enumerate(sb["bounds"]):
                        tgt.bounds[i] = (lo, hi)
                else:
                    tgt.bounds = [(lo, hi) for lo, hi in sb["bounds"]]
                run.count("probe:bounds-edited-between-fits")
            fail_at = rnd["fail_at"]
            exc = None
            called = set()
            with seams.OptimiserShim(fail_at=[fail_at] if fail_at is not None else None) as shim:
                try:
                    if cond is not None:
                        for j in range(nf):
                            if j not in pos:
                                objs[j].fit(x, ys[j])  # the caller fits his auxiliary function himself, first
                                run.count("probe:conditioner-fitted-outside-the-conditional-distribution")
                        data = []
                        for i in range(len(x)):
                            row = [0.0] * len(internal)
                            for j in internal:
                                row[pos[j]] = ys[j][i]
                            data.append(np.array(row))
                        cond.fit(data, list(x), [(v - 0.25, v + 0.25) for v in x], "mle", None)
                        called = set(range(nf))
                    else:
                        for j in rnd["order"]:
                            if objs[j] is None:
                                build_late(scen, objs, j)
                                run.count("probe:declared-right-before-its-first-fit")
                            st0 = _proto_state(objs)
                            cont = rnd.get("container", "ndarray")
                            xa, ya = (x, ys[j]) if cont == "ndarray" else ((x.tolist(), ys[j].tolist()) if cont == "list" else (tuple(x.tolist()), tuple(ys[j].tolist())))
                            objs[j].fit(xa, ya)
                            called.add(j)
                            if not st0[j][0]:
                                run.count("probe:deferred-fit-taken")
                except Exception as e:
                    exc = e
            fired = shim.fired
            n_calls = len(shim.calls)
            if fired:
                run.count("fault:F1-optimiser-failure", fired)
            if n_calls > nf and ri == 0 and scen["mode"] == "direct" and len(rnd["order"]) == nf:
                run.count("probe:refit-through-callback")
            if ri > 0:
                run.count("probe:refit-round")
            params = params_of(objs)
            run.event("round", [ri, rnd["order"], fail_at], [params, repr(type(exc).__name__) if exc else None], ["F1"] if fired else [])
            if fired:
                if exc is None:
                    run.violate("O6-fault-swallowed", f"{scen['dag']}/{scen['mode']}", {"round": ri, "fail_at": fail_at})
                elif not isinstance(exc, RuntimeError):
                    run.violate("O6-fault-type", f"{scen['dag']}/{scen['mode']}", {"round": ri, "exc": repr(exc)})
                dirty = True
                continue
            if exc is not None:
                # fault-free exception
                no_slsqp = all(f["constraints"] is None for f in scen["funcs"])
                if lin and no_slsqp and isinstance(exc, (RuntimeError, ValueError, AssertionError, TypeError)) and _topo_reference_completes(declared, rnd):
                    run.violate(
                        "O7-order-dependent-failure",
                        f"{scen['dag']}/{scen['mode']}",
                        {"round": ri, "order": rnd["order"], "exc": repr(exc)[:300]},
                    )
                    return run
                if isinstance(exc, (RuntimeError, ValueError, FloatingPointError, ZeroDivisionError, OverflowError)):
                    # documented / numerical failure of the optimiser on generated data
                    run.inconclusive = f"optimiser failed on workload: {type(exc).__name__}"
                    return run
                run.violate("O0-fit-raises", f"{type(exc).__name__}/{scen['dag']}", {"round": ri, "exc": repr(exc)[:300], "mode": scen["mode"]})
                return run
            if scen["mode"] == "direct" and called != set(range(nf)):
                continue  # not quiescent (cannot happen: orders are permutations)
            tag = f"{scen['mode']}" + ("/recovery" if dirty else "") + ("/refit" if ri > 0 and not dirty else "")
            for j in range(nf):
                check_function(run, declared, j, x, ys[j], params, tag, rnd.get("yscale", 1.0))
            if not run.violations:
                check_order_independence(run, declared, rnd, x, ys, params)
            dirty = False
            if run.violations:
                return run
    return run


# --------------------------------------------------------------------------
# shrinking
# --------------------------------------------------------------------------


def shrink_candidates(prop, scen):
    import copy

    R = scen["rounds"]
    # drop a round
    for i in range(len(R)):
        if len(R) > 1:
            c = copy.deepcopy(scen)
            del c["rounds"][i]
            yield c
    # drop faults
    for i, r in enumerate(R):
        if r["fail_at"] is not None:
            c = copy.deepcopy(scen)
            c["rounds"][i]["fail_at"] = None
            yield c
    # simplify per-function decorations
    for j, f in enumerate(scen["funcs"]):
        for key in ("constraints", "weights", "bounds"):
            if f.get(key) is not None:
                c = copy.deepcopy(scen)
                c["funcs"][j][key] = None
                if key == "bounds":
                    c["funcs"][j].pop("bound_kinds", None)
                yield c
    # orders without repeats, noise-free, fewer points, centred grid
    for i, r in enumerate(R):
        if len(r["order"]) > len(scen["funcs"]):
            c = copy.deepcopy(scen)
            seen = []
            for j in r["order"]:
                if j not in seen:
                    seen.append(j)
            c["rounds"][i]["order"] = seen
            yield c
        if r["noise"] != 0.0:
            c = copy.deepcopy(scen)
            c["rounds"][i]["noise"] = 0.0
            yield c
        if r["n"] > 6:
            c = copy.deepcopy(scen)
            c["rounds"][i]["n"] = max(6, r["n"] // 2)
            yield c
        if r.get("xgrid") != "centres":
            c = copy.deepcopy(scen)
            c["rounds"][i]["xgrid"] = "centres"
            yield c
    # drop a leaf function (one no other function depends on)
    nf = len(scen["funcs"])
    used = {ci for f in scen["funcs"] for ci in f["conds"]}
    for j in range(nf - 1, -1, -1):
        if j in used or nf == 1:
            continue
        c = copy.deepcopy(scen)
        del c["funcs"][j]
        for f in c["funcs"]:
            f["conds"] = [ci - (1 if ci > j else 0) for ci in f["conds"]]
        for r in c["rounds"]:
            del r["truth"][j]
            r["order"] = [k - (1 if k > j else 0) for k in r["order"] if k != j] or [0]
            if r["fail_at"] is not None:
                r["fail_at"] = min(r["fail_at"], len(c["funcs"]))
        c["dag"] = scen["dag"]
        if "roles" in c:
            c.pop("roles"); c.pop("dict_order"); c.pop("external", None); c["mode"] = "direct"
        yield c
    if scen["mode"] == "cond":
        c = copy.deepcopy(scen)
        c["mode"] = "direct"
        c.pop("roles", None)
        c.pop("dict_order", None)
        c.pop("external", None)
        yield c


def describe(prop):
    return {
        "rule": (
            "one run = one seeded scenario: DAG kind x shapes x bounds/weights/constraints x mode (direct fit calls | "
            "ConditionalDistribution.fit with chosen role assignment and dict order) x 1-3 rounds of different data x per-round "
            "order of fit calls (with repeats) x optional optimiser fault F1 followed by a clean round. distinct = distinct hash of "
            "(dag, mode, shapes, kw order, bound kinds, weights, constraint kind, per-round call order, fault position, roles, dict order); "
            "non-trivial = the run reached at least one end-of-round oracle evaluation (not inconclusive)."
        ),
        "real": ["virocon.dependencies.DependenceFunction", "virocon._fitting (fit_function, fit_constrained_function)", "virocon.distributions.ConditionalDistribution.fit", "scipy.optimize.curve_fit / minimize (real, behind a counting shim)"],
        "stub": ["StubDist: user-defined Distribution subclass that transports chosen y-values through ConditionalDistribution.fit", "OptimiserShim: counting wrapper around virocon._fitting.curve_fit/minimize that raises the real exception type at a planned invocation"],
        "assumptions": [
            "reference values come from the harness's own evaluation of the user's shape functions at the public .parameters",
            "closed-form references: numpy.linalg.lstsq / scipy.optimize.lsq_linear(bvls) for shapes linear in their own parameters",
            "weights: a result optimal under any of the readings sum((f-y)^2/w^2), sum(|w|(f-y)^2), sum(w^2 (f-y)^2) is accepted (docstring and code disagree; property does not choose)",
            "nonlinear shapes: only bounds/constraints and local optimality are demanded; a fault-free optimiser failure makes the run inconclusive",
            'one known finding (known_findings.json): constrained (SLSQP) fits whose data or least-squares solution lie >= 1e3 times the start parameters away; its violations carry the site slsqp-constrained-far-from-start and do not fail the check',
            'not judged: a conditioner of alpha3 below 0.05 on the support, a runaway parameter (> 1e4 x start, still improving away from zero, unbounded) of a nonlinear shape, a fitted asymdecrease3 with its pole inside the support',
        ],
        "probes": ["deferred-fit-taken", "refit-through-callback", "refit-round", "continued-on-deep-copy", "bounds-edited-between-fits"],
    }
