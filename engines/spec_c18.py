"""C18 - ill-formed model, fit and contour specifications are rejected, not computed.

System under simulation: a *staged pipeline* over a valid description
  S0 build distribution / dependence-function / slicer objects
  S1 GlobalHierarchicalModel(description)
  S2 model.fit(data, fit_descriptions)
  S3 model.pdf / cdf (evaluation points)
  S4 contour construction
The fault-free twin of every pipeline is run first and must complete.  Then the
malformation(s) (fault kind F4: the property's own list) are injected at a
chosen position and the pipeline is run again.  Oracle: the faulted run raises
no later than the latest admissible stage L of the fault; violation <=> stage L
returned normally, i.e. a result was computed from an ill-formed specification.

Single faults are *enumerated completely* (class x position x carrier family x
structure); pairs are a seeded sample.
"""

import copy
import itertools
import math

import numpy as np

from sim import core, seams
from engines.fit_c14 import SHAPES, make_func

NAME = "spec"

# --------------------------------------------------------------------------
# families: name -> (ctor name, parameter names, truth values, fixed-by-default)
# --------------------------------------------------------------------------

FAMILIES = {
    "Weibull": ("WeibullDistribution", ["alpha", "beta", "gamma"], {"alpha": 2.5, "beta": 1.8, "gamma": 0.0}, {"gamma": 0.0}),
    "LogNormal": ("LogNormalDistribution", ["mu", "sigma"], {"mu": 0.9, "sigma": 0.3}, {}),
    "Normal": ("NormalDistribution", ["mu", "sigma"], {"mu": 5.0, "sigma": 1.2}, {}),
    "LogNormalNormFit": ("LogNormalNormFitDistribution", ["mu_norm", "sigma_norm"], {"mu_norm": 4.0, "sigma_norm": 1.0}, {}),
    "ExpWeibull": ("ExponentiatedWeibullDistribution", ["alpha", "beta", "delta"], {"alpha": 2.0, "beta": 1.5, "delta": 2.0}, {"delta": 2.0}),
    "GenGamma": ("GeneralizedGammaDistribution", ["m", "c", "lambda_"], {"m": 2.0, "c": 1.5, "lambda_": 0.6}, {"m": 2.0}),
    "VonMises": ("VonMisesDistribution", ["kappa", "mu"], {"kappa": 2.0, "mu": 1.0}, {}),
    "ScipyGamma": ("ScipyGamma", ["a", "loc", "scale"], {"a": 2.5, "loc": 0.0, "scale": 1.2}, {"loc": 0.0}),
}
FAMILY_NAMES = list(FAMILIES)
# a carrier for full pipelines whose parameters are *all* fixed (nothing left to estimate)
FAMILIES["ScipyGammaAllFixed"] = ("ScipyGamma", ["a", "loc", "scale"], {"a": 2.5, "loc": 0.0, "scale": 1.2}, {"a": 2.5, "loc": 0.0, "scale": 1.2})
ROBUST = ["Weibull", "LogNormal", "Normal", "ExpWeibull"]  # carriers with cheap, well-posed fits


def _family_class(name):
    import virocon
    import virocon.distributions as vd

    if name in ("ScipyGamma", "ScipyGammaAllFixed"):
        cls = getattr(_family_class, "_sg", None)
        if cls is None:

            class ScipyGamma(vd.ScipyDistribution):
                scipy_dist_name = "gamma"

            _family_class._sg = cls = ScipyGamma
        return cls
    return getattr(vd, FAMILIES[name][0])


# --------------------------------------------------------------------------
# base pipelines
# --------------------------------------------------------------------------


def structures(n):
    """all conditional_on structures with cond[0] None and cond[i] in {None, 0..i-1}"""
    opts = [[None]] + [[None] + list(range(i)) for i in range(1, n)]
    return [list(t) for t in itertools.product(*opts)]


def base_pipeline(n_dim, cond, carriers, kind, variant=0):
    """A valid pipeline description (plain data)."""
    dims = []
    for i in range(n_dim):
        fam = carriers[i]
        _, pnames, truth, fixed = FAMILIES[fam]
        d = {"family": fam, "cond_on": cond[i], "truth": dict(truth), "fixed": {}, "deps": {}}
        if cond[i] is not None:
            d["fixed"] = dict(fixed)
            for p in pnames:
                if p in d["fixed"]:
                    continue
                # value = truth * (1 + 0.05 * x)  -> poly1 with a = t, b = 0.05 t
                t = truth[p]
                d["deps"][p] = {"shape": "poly1", "truth": [t, 0.04 * t if t > 0 else 0.04]}
        d["slicer"] = {"kind": ["width", "number", "points"][(i + variant) % 3], "min_n_points": 20, "min_n_intervals": 3}
        dims.append(d)
    pipe = {"kind": kind, "dims": dims, "data": {"n": 900, "seed": 12345 + variant}, "fit_desc": None, "points": [[1.0 + 0.3 * j for j in range(n_dim)], [2.0] * n_dim], "contour": None}
    if kind == "full":
        fd = []
        for i, d in enumerate(dims):
            if d["family"] == "ExpWeibull":
                fd.append({"method": "wlsq", "weights": "quadratic"})
            elif (i + variant) % 2 == 0:
                fd.append({"method": "mle"})
            else:
                fd.append(None)
        pipe["fit_desc"] = fd
        pipe["contour"] = {"kind": "IFORM", "alpha": 0.05, "n_points": 12}
    return pipe


def desc_pipelines():
    """construction-only pipelines: every structure of 1-4 dims"""
    out = []
    for n in (1, 2, 3, 4):
        for cond in structures(n):
            out.append((n, cond))
    return out


FULL_PIPES = [
    (1, [None], ["Weibull"]),
    (2, [None, 0], ["Weibull", "LogNormal"]),
    (2, [None, 0], ["ExpWeibull", "Normal"]),
    (2, [None, None], ["LogNormal", "Weibull"]),
    (2, [None, 0], ["LogNormal", "ExpWeibull"]),
    (3, [None, 0, 0], ["Weibull", "LogNormal", "Normal"]),
    (3, [None, 0, 1], ["ExpWeibull", "LogNormal", "Weibull"]),
    (3, [None, None, 1], ["Weibull", "Normal", "LogNormal"]),
    (4, [None, 0, 1, 0], ["Weibull", "LogNormal", "Normal", "LogNormal"]),
    (2, [None, None], ["Weibull", "ScipyGammaAllFixed"]),
    (3, [None, 0, None], ["ExpWeibull", "LogNormal", "ScipyGammaAllFixed"]),
    # the same structures with the slicer kinds rotated, so that every kind sits on a conditioning dimension
    (2, [None, 0], ["Weibull", "LogNormal"]),
    (3, [None, 0, 1], ["Weibull", "LogNormal", "Normal"]),
    # fitted through the public wrapper TransformedModel.fit (identity transformation)
    (2, [None, 0], ["Weibull", "LogNormal"]),
]
FULL_VARIANT = {11: 2, 12: 1}  # index in FULL_PIPES -> rotation of (width, number, points) over the dimensions
FULL_VIA_TRANSFORMED = {13}


def full_pipe(bi):
    n, cond, carriers = FULL_PIPES[bi]
    pipe = base_pipeline(n, cond, carriers, "full", FULL_VARIANT.get(bi, 0))
    if bi in FULL_VIA_TRANSFORMED:
        pipe["via_transformed"] = True
    return pipe


def _fit_entry(pipe, model):
    """the callable that fits the pipeline's model: the model's own fit, or the forwarding fit of a
    TransformedModel around it"""
    if not pipe.get("via_transformed"):
        return model.fit
    from virocon import TransformedModel

    return TransformedModel(model, lambda x: x, lambda x: x, lambda x: np.ones(len(x))).fit


# --------------------------------------------------------------------------
# fault catalogue: class -> (latest admissible stage, applicability, injector)
# --------------------------------------------------------------------------

STAGES = ["S0", "S1", "S2", "S3", "S4"]

DESC_FAULTS = {
    # class: needs conditional dim?
    "missing-distribution": "any",
    "conditional-without-parameters": "cond",
    "unknown-description-key": "any",
    "two-unknown-description-keys": "any",
    "unknown-description-key-non-string": "any",
    "unknown-parameter-name": "cond",
    "unknown-parameter-name/attribute-of-the-distribution": "cond",
    "unknown-parameter-name/f_-spelling": "cond",
    "parameter-fixed-and-dependent": "cond",
    "parameter-fixed-at-zero-and-dependent": "cond",  # a falsy fixed value (f_gamma=0 is what the predefined models use)
    "parameter-neither": "cond",
    # two malformations of the parameter bookkeeping in one and the same description (different parameters)
    "parameter-fixed-and-dependent/and-another-neither": "cond",
    "two-parameters-fixed-and-dependent": "cond",
    "two-parameters-neither": "cond",
    "first-variable-conditional": "first",
    "conditional-on-self": "notfirst",
    "conditional-on-later": "notfirst-notlast",
    "conditional-on-nonexistent": "notfirst",
    "conditional-on-negative": "notfirst",
}

FULL_FAULTS = {
    # class: (stage L, position kind)
    "data-wrong-columns": ("S2", "global"),
    "data-flat-single-column": ("S2", "global"),
    "data-flat-raveled": ("S2", "global"),
    "data-flat-list": ("S2", "global"),
    "fitdesc-wrong-length": ("S2", "global"),
    "fitdesc-without-method": ("S2", "dim"),
    "unknown-fit-method": ("S2", "dim"),
    "unknown-weight-keyword": ("S2", "ewdim"),
    "noniterable-weights": ("S2", "ewdim"),
    # least squares is also selected by 'lsq' and case-insensitively
    "unknown-weight-keyword/method-lsq": ("S2", "ewdim"),
    "unknown-weight-keyword/method-WLSQ": ("S2", "ewdim"),
    "noniterable-weights/method-Lsq": ("S2", "ewdim"),
    "unknown-fit-method/empty-string": ("S2", "dim"),
    "fit-method-none": ("S2", "dim"),  # the key is there, the value is None
    "fit-method-none/with-unknown-weight-keyword": ("S2", "dim"),
    "hdc-limits-wrong-length": ("S4", "global"),
    "hdc-limit-tuple-wrong-length": ("S4", "dim"),
    "hdc-limit-scalar-entry": ("S4", "dim"),
    "hdc-deltas-wrong-length": ("S4", "global"),
    "nan-evaluation-point": ("S3", "dim"),
    "inf-evaluation-point": ("S3", "dim"),
    "neginf-evaluation-point": ("S3", "dim"),
    "nan-evaluation-point-cdf": ("S3", "dim"),
    "3d-model-into-direct-sampling-contour": ("S4", "contour3"),
    "3d-model-into-and-contour": ("S4", "contour3"),
    "3d-model-into-or-contour": ("S4", "contour3"),
    # the same with a caller-supplied sample of exactly two columns, and with no sample at all
    "3d-model-into-direct-sampling-contour/2-column-sample": ("S4", "contour3"),
    "3d-model-into-and-contour/2-column-sample": ("S4", "contour3"),
    "3d-model-into-or-contour/2-column-sample": ("S4", "contour3"),
    "3d-model-into-direct-sampling-contour/own-sample": ("S4", "contour3"),
    "3d-model-into-and-contour/own-sample": ("S4", "contour3"),
    "3d-model-into-or-contour/own-sample": ("S4", "contour3"),
    "non-model-into-iform": ("S4", "global"),
    "unknown-slicer-option": ("S0", "conddim-slicer"),
    "unknown-reference-keyword": ("S2", "conddim-slicer"),
    "wrongly-typed-reference": ("S2", "conddim-slicer"),
    "too-few-intervals": ("S2", "conddim-slicer"),
    # exactly one interval fewer than demanded; with one interval dropped for having too few points
    "too-few-intervals/one-short": ("S2", "conddim-slicer"),
    "too-few-intervals/one-short-points-slicer": ("S2", "conddim-slicer"),
    "fitdesc-empty-list": ("S2", "global"),
    "fitdesc-empty-tuple": ("S2", "global"),
    "fitdesc-one-entry-short": ("S2", "global"),
}


def _conditioning_dims(pipe):
    return sorted({d["cond_on"] for d in pipe["dims"] if d["cond_on"] is not None})


def applicable(pipe, cls):
    """positions at which fault class cls can be injected into pipe"""
    n = len(pipe["dims"])
    if pipe["kind"] == "desc":
        k = DESC_FAULTS[cls]
        if k == "any":
            return list(range(n))
        if k == "cond":
            return [i for i in range(n) if pipe["dims"][i]["cond_on"] is not None]
        if k == "first":
            return [0]
        if k == "notfirst":
            return list(range(1, n))
        if k == "notfirst-notlast":
            return list(range(1, n - 1))
        return []
    L, k = FULL_FAULTS[cls]
    if cls.startswith("data-flat") and n < 2:
        return []
    if k == "global":
        return [None]
    if k == "dim":
        return list(range(n))
    if k == "ewdim":
        return [i for i in range(n) if pipe["dims"][i]["family"] == "ExpWeibull"]
    if k == "contour3":
        return [None] if n == 3 else []
    if k == "conddim-slicer":
        return _conditioning_dims(pipe)
    return []


SEQ_FIRST = ["unknown-fit-method@last", "unknown-weight-keyword@ew", "fitdesc-without-method@last", "dependence-fit-fails", "narrow-data", "too-few-intervals-data", "one-interval-data"]
SEQ_SECOND = ["too-few-intervals-data", "data-wrong-columns", "fitdesc-wrong-length", "unknown-fit-method@0", "nan-in-data", "narrow-data", "resubmit-the-rejected-fit-descriptions"]


def seq_cases():
    """fault *sequences* on one model object: a fit that is rejected (after earlier dimensions were
    already processed), then another ill-formed fit request that must be rejected as well"""
    out = []
    for bi, (n, cond, carriers) in enumerate(FULL_PIPES):
        if not any(c is not None for c in cond):
            continue
        for a in SEQ_FIRST:
            if a == "unknown-weight-keyword@ew" and "ExpWeibull" not in carriers:
                continue
            for b in SEQ_SECOND:
                if b == "too-few-intervals-data" and any(full_pipe(bi)["dims"][j]["slicer"]["kind"] == "points" for j in _conditioning_dims(full_pipe(bi))):
                    continue  # intervals of equal *counts* do not get fewer when the values coincide
                if b == "resubmit-the-rejected-fit-descriptions" and a not in ("unknown-fit-method@last", "unknown-weight-keyword@ew", "fitdesc-without-method@last"):
                    continue  # only a rejected *fit description* can be handed in again
                out.append({"kind": "seq", "base": bi, "faults": [{"cls": a, "pos": None}, {"cls": b, "pos": None}]})
    return out


def all_single_cases():
    cases = []
    # description faults: every structure x position x carrier family
    for n, cond in desc_pipelines():
        for cls in DESC_FAULTS:
            probe = base_pipeline(n, cond, ["Weibull"] * n, "desc")
            for pos in applicable(probe, cls):
                for fam in FAMILY_NAMES:
                    cases.append({"kind": "desc", "n": n, "cond": cond, "carrier": fam, "faults": [{"cls": cls, "pos": pos}]})
    for bi, (n, cond, carriers) in enumerate(FULL_PIPES):
        probe = full_pipe(bi)
        for cls in FULL_FAULTS:
            for pos in applicable(probe, cls):
                cases.append({"kind": "full", "base": bi, "faults": [{"cls": cls, "pos": pos}]})
    cases += seq_cases()
    return cases


_CASES = None


def cases():
    global _CASES
    if _CASES is None:
        _CASES = all_single_cases()
    return _CASES


def tier_config(prop, tier):
    n = len(cases())
    if tier == "quick":
        return {"runs": n + 600, "chunk": 64, "cap_s": 120, "det_seeds": 8}
    return {"budget_s": 900, "chunk": 64, "cap_s": 120, "det_seeds": 48, "grace_s": 900}


def generate(prop, seed, tier):
    """seed -> scenario.  The low 20 bits (run index within the batch) below the
    number of single cases enumerate them; later indices sample pairs."""
    idx = seed & ((1 << 20) - 1)
    cs = cases()
    if idx < len(cs):
        c = copy.deepcopy(cs[idx])
        c.update({"engine": NAME, "property": prop, "seed": seed, "mode": "single", "case_index": idx})
        return c
    S = core.SeedStream(seed)
    # pairs: two faults in one pipeline
    for _ in range(50):
        if S.chance(0.5):
            n, cond = S.pick(desc_pipelines()[1:])
            carrier = S.pick(FAMILY_NAMES)
            probe = base_pipeline(n, cond, [carrier] * n, "desc")
            table = DESC_FAULTS
            c = {"kind": "desc", "n": n, "cond": cond, "carrier": carrier}
        else:
            bi = S.int(0, len(FULL_PIPES) - 1)
            n, cond, carriers = FULL_PIPES[bi]
            probe = full_pipe(bi)
            table = FULL_FAULTS
            c = {"kind": "full", "base": bi}
        cl = [k for k in table if applicable(probe, k)]
        if len(cl) < 2:
            continue
        a, b = S.pick(cl), S.pick(cl)
        pa, pb = S.pick(applicable(probe, a)), S.pick(applicable(probe, b))
        if a == b and pa == pb:
            continue
        if pa is not None and pa == pb and c["kind"] == "desc":
            continue  # two description faults on the same dimension may cancel each other
        if (a.startswith("3d-model-into") or b.startswith("3d-model-into") or "non-model-into-iform" in (a, b)) and any(x.startswith("hdc") for x in (a, b)):
            continue  # different contour stages: only one contour is built per pipeline
        if (a.startswith("3d-model-into") and b == "non-model-into-iform") or (b.startswith("3d-model-into") and a == "non-model-into-iform"):
            continue
        if {a, b} == {"fitdesc-one-entry-short", "fitdesc-wrong-length"}:
            continue  # one entry removed, one appended: the right length again
        if a.startswith("hdc") and b.startswith("hdc") and a != b and {a, b} & {"hdc-limits-wrong-length"} and {a, b} & {"hdc-limit-tuple-wrong-length", "hdc-limit-scalar-entry"}:
            continue
        c.update({"engine": NAME, "property": prop, "seed": seed, "mode": "pair", "faults": [{"cls": a, "pos": pa}, {"cls": b, "pos": pb}]})
        return c
    c = copy.deepcopy(cs[idx % len(cs)])
    c.update({"engine": NAME, "property": prop, "seed": seed, "mode": "single", "case_index": idx % len(cs)})
    return c


# --------------------------------------------------------------------------
# building and running a pipeline
# --------------------------------------------------------------------------


class Stop(Exception):
    pass


def _pipe_of(scen):
    if scen["kind"] == "desc":
        n, cond = scen["n"], scen["cond"]
        carriers = ["Weibull" if c is None else "LogNormal" for c in cond]
        # the carrier family sits at every fault position
        for f in scen["faults"]:
            if f["pos"] is not None:
                carriers[f["pos"]] = scen["carrier"]
        if all(f["pos"] is None for f in scen["faults"]):
            carriers[-1] = scen["carrier"]
        return base_pipeline(n, cond, carriers, "desc")
    return full_pipe(scen["base"])


def run_sequence(pipe, faults):
    """build the model, then issue two ill-formed fit requests on the same object.
    Returns (first_raised, second_raised, exception of the second or None)."""
    from virocon import DependenceFunction, GlobalHierarchicalModel

    n = len(pipe["dims"])
    descs = []
    for i, d in enumerate(pipe["dims"]):
        cls = _family_class(d["family"])
        if d["cond_on"] is None:
            dist = cls(**({"f_" + k: v for k, v in d["truth"].items()} if d["family"] == "ScipyGammaAllFixed" else d["truth"]))
            descs.append({"distribution": dist, "intervals": _make_slicer(d["slicer"])})
        else:
            dist = cls(**{"f_" + p: v for p, v in d["fixed"].items()})
            descs.append({"distribution": dist, "intervals": _make_slicer(d["slicer"]), "conditional_on": d["cond_on"], "parameters": {p: DependenceFunction(make_func(v["shape"], [1.0] * SHAPES[v["shape"]][1])) for p, v in d["deps"].items()}})
    model = GlobalHierarchicalModel(descs)
    data = _data_for(pipe)
    ew = [i for i, d in enumerate(pipe["dims"]) if d["family"] == "ExpWeibull"]
    raised = []
    last_exc = None
    prev_fd = None
    for f in faults:
        fd = copy.deepcopy(pipe["fit_desc"])
        D = data
        shim_fail = None
        c = f["cls"]
        if c == "unknown-fit-method@last":
            fd[n - 1] = {"method": "least_squares"}
        elif c == "unknown-fit-method@0":
            fd[0] = {"method": "least_squares"}
        elif c == "unknown-weight-keyword@ew":
            fd[ew[-1]] = {"method": "wlsq", "weights": "quartic"}
        elif c == "fitdesc-without-method@last":
            fd[n - 1] = {"weights": None}
        elif c == "dependence-fit-fails":
            shim_fail = [0]
        elif c == "too-few-intervals-data":
            # same number of rows, but 97 % of the conditioning values coincide: one interval keeps
            # enough rows, all others are dropped -> fewer than min_n_intervals
            D = data.copy()
            for j in _conditioning_dims(pipe):
                col = D[:, j]
                keep = np.arange(len(col)) % 33 == 0
                D[:, j] = np.where(keep, col, float(np.median(col)))
        elif c == "resubmit-the-rejected-fit-descriptions":
            # the caller hands the very same list (and dicts) in again
            if prev_fd is not None:
                fd = prev_fd
            else:
                fd[n - 1] = {"weights": None}  # a fresh model: the same ill-formed description, first time
        elif c == "narrow-data":
            # all conditioning values inside (0.2, 1.8): two intervals of the default width 1, both well
            # filled - fewer than the three demanded
            D = data.copy()
            for j in _conditioning_dims(pipe):
                col = D[:, j]
                D[:, j] = 0.2 + 1.6 * (col - col.min()) / (col.max() - col.min())
        elif c == "one-interval-data":
            # all conditioning values inside (0.2, 0.9): one interval of the default width 1
            D = data.copy()
            for j in _conditioning_dims(pipe):
                col = D[:, j]
                D[:, j] = 0.2 + 0.7 * (col - col.min()) / (col.max() - col.min())
        elif c == "data-wrong-columns":
            D = np.column_stack([data, data[:, 0]])
        elif c == "fitdesc-wrong-length":
            fd = fd + [{"method": "mle"}]
        elif c == "nan-in-data":
            D = data.copy()
            D[5, 0] = np.nan
        prev_fd = fd
        try:
            with seams.OptimiserShim(fail_at=shim_fail):
                _fit_entry(pipe, model)(D, fd)
            raised.append(False)
            last_exc = None
        except Exception as e:  # noqa: BLE001
            raised.append(True)
            last_exc = e
    return raised, last_exc


def _data_for(pipe):
    """seeded data set drawn from the pipeline's own ground truth (harness code,
    independent of virocon's sampler)"""
    rng = np.random.default_rng(pipe["data"]["seed"])
    n = pipe["data"]["n"]
    import scipy.stats as sts

    cols = []
    for i, d in enumerate(pipe["dims"]):
        t = d["truth"]
        if d["cond_on"] is not None:
            g = cols[d["cond_on"]]
            val = {}
            for p in FAMILIES[d["family"]][1]:
                if p in d["deps"]:
                    a, b = d["deps"][p]["truth"]
                    val[p] = a + b * g
                else:
                    val[p] = d["fixed"].get(p, t[p])
        else:
            val = dict(t)
        u = rng.uniform(0.001, 0.999, size=n)
        fam = d["family"]
        if fam == "Weibull":
            x = sts.weibull_min.ppf(u, val["beta"], loc=val["gamma"], scale=val["alpha"])
        elif fam == "LogNormal":
            x = sts.lognorm.ppf(u, val["sigma"], scale=np.exp(val["mu"]))
        elif fam == "Normal":
            x = sts.norm.ppf(u, loc=val["mu"], scale=val["sigma"])
        elif fam == "ExpWeibull":
            x = sts.exponweib.ppf(u, val["delta"], val["beta"], scale=val["alpha"])
        elif fam == "ScipyGammaAllFixed":
            x = sts.gamma.ppf(u, val["a"], loc=val["loc"], scale=val["scale"])
        else:
            raise ValueError(fam)
        cols.append(np.asarray(x, dtype=float))
    return np.column_stack(cols)


def _make_slicer(spec, extra=None):
    from virocon import NumberOfIntervalsSlicer, PointsPerIntervalSlicer, WidthOfIntervalSlicer

    kw = {"min_n_points": spec["min_n_points"], "min_n_intervals": spec["min_n_intervals"]}
    kw.update(spec.get("extra_kw", {}))
    if "reference" in spec:
        kw["reference"] = spec["reference"]
    if spec["kind"] == "width":
        return WidthOfIntervalSlicer(width=spec.get("width", 1.0), **kw)
    if spec["kind"] == "number":
        return NumberOfIntervalsSlicer(n_intervals=spec.get("n_intervals", 4), **kw)
    return PointsPerIntervalSlicer(n_points=spec.get("n_points", 150), **kw)


def run_pipeline(pipe, faults, run=None):
    """Execute the pipeline with the given faults injected.  Returns
    (last completed stage index or -1, exception or None, per-stage record)."""
    from virocon import DependenceFunction, GlobalHierarchicalModel
    import virocon

    fl = {(f["cls"], f["pos"]) for f in faults}

    def has(cls, pos=None):
        return (cls, pos) in fl

    def anyf(cls):
        return [p for (c, p) in fl if c == cls]

    n = len(pipe["dims"])
    stage = -1
    try:
        # ---------------- S0: build objects ---------------------------------------------------------
        descs = []
        for i, d in enumerate(pipe["dims"]):
            cls = _family_class(d["family"])
            fixed = dict(d["fixed"])
            deps = dict(d["deps"])
            cond_on = d["cond_on"]
            if has("parameter-fixed-and-dependent", i):
                p = next(iter(deps))
                fixed[p] = d["truth"][p]
            if has("parameter-fixed-at-zero-and-dependent", i):
                p = list(deps)[-1]
                fixed[p] = 0 if i % 2 else 0.0
            if has("parameter-neither", i):
                deps.pop(next(iter(deps)))
            if has("parameter-fixed-and-dependent/and-another-neither", i):
                p = next(iter(deps))
                fixed[p] = d["truth"][p]
                deps.pop(list(deps)[-1])
            if has("two-parameters-fixed-and-dependent", i):
                for p in (list(deps)[0], list(deps)[-1]):
                    fixed[p] = d["truth"][p]
            if has("two-parameters-neither", i):
                for p in (list(deps)[0], list(deps)[-1]):
                    deps.pop(p)
            if has("first-variable-conditional", i):
                cond_on = 0
                for p in FAMILIES[d["family"]][1]:
                    t = d["truth"][p]
                    deps[p] = {"shape": "poly1", "truth": [t, 0.04]}
            kwargs = {}
            if cond_on is None and d["family"] == "ScipyGammaAllFixed":
                kwargs = {"f_" + k: v for k, v in d["truth"].items()}
            elif cond_on is None:
                if d["family"] == "ScipyGamma":
                    kwargs = {k: v for k, v in d["truth"].items()}
                else:
                    kwargs = dict(d["truth"])
            else:
                for p, v in fixed.items():
                    kwargs["f_" + p] = v
            dist = cls(**kwargs)
            desc = {"distribution": dist}
            spec = dict(d["slicer"])
            if has("unknown-slicer-option", i):
                spec["extra_kw"] = {"min_points": 10}
            if has("unknown-reference-keyword", i):
                spec["kind"] = "width" if spec["kind"] == "points" else spec["kind"]
                spec["reference"] = "middle"
            if has("wrongly-typed-reference", i):
                spec["kind"] = "number" if spec["kind"] == "points" else spec["kind"]
                spec["reference"] = 5
            if has("too-few-intervals", i):
                spec["min_n_intervals"] = 400
                if spec["kind"] == "number":
                    # NumberOfIntervalsSlicer lowers min_n_intervals to n_intervals;
                    # ask for more points per interval than any interval holds instead
                    spec["min_n_points"] = 10**6
            if has("too-few-intervals/one-short", i) or has("too-few-intervals/one-short-points-slicer", i):
                # an interval slicer that keeps k intervals (after dropping one that holds fewer than
                # min_n_points observations) is asked for k + 1
                if has("too-few-intervals/one-short-points-slicer", i):
                    spec["kind"] = "points"  # the base pipelines put width / number slicers on the conditioning dimensions
                if spec["kind"] == "number":
                    spec["kind"] = "width"  # NumberOfIntervalsSlicer lowers min_n_intervals to n_intervals
                if spec["kind"] == "points":
                    spec["n_points"] = 140  # 900 = 6 * 140 + 60
                    spec["min_n_points"] = 80
                else:
                    spec["min_n_points"] = 40
                probe = dict(spec)
                probe["min_n_intervals"] = 1
                col = _data_for(pipe)[:, i]
                k = len(_make_slicer(probe).slice_(col)[0])
                spec["min_n_intervals"] = k + 1
            desc["intervals"] = _make_slicer(spec)
            if cond_on is not None:
                desc["conditional_on"] = cond_on
                desc["parameters"] = {p: DependenceFunction(make_func(v["shape"], [1.0] * SHAPES[v["shape"]][1])) for p, v in deps.items()}
            # ---- description-level malformations ----
            if has("missing-distribution", i):
                del desc["distribution"]
            if has("conditional-without-parameters", i):
                del desc["parameters"]
            if has("unknown-description-key", i):
                desc["distributon"] = dist
            if has("two-unknown-description-keys", i):
                desc["interval"] = desc.get("intervals")
                desc["condition_on"] = 0
            if has("unknown-description-key-non-string", i):
                desc[0] = dist
            if has("unknown-parameter-name", i):
                desc["parameters"]["not_a_parameter"] = DependenceFunction(make_func("poly1", [1.0, 1.0]))
            if has("unknown-parameter-name/attribute-of-the-distribution", i):
                # not a parameter, although the distribution object has an attribute of that name
                desc["parameters"][["pdf", "fit", "parameters", "draw_sample", "cdf"][i % 5]] = DependenceFunction(make_func("poly1", [1.0, 1.0]))
            if has("unknown-parameter-name/f_-spelling", i):
                desc["parameters"]["f_" + FAMILIES[d["family"]][1][0]] = DependenceFunction(make_func("poly1", [1.0, 1.0]))
            if has("conditional-on-self", i):
                desc = _as_conditional(desc, d, i)
            if has("conditional-on-later", i):
                desc = _as_conditional(desc, d, n - 1)
            if has("conditional-on-nonexistent", i):
                desc = _as_conditional(desc, d, n + (i % 3))
            if has("conditional-on-negative", i):
                desc = _as_conditional(desc, d, -1 - (i % 2))
            descs.append(desc)
        stage = 0
        # ---------------- S1: model construction ------------------------------------------------------
        model = GlobalHierarchicalModel(descs)
        stage = 1
        if pipe["kind"] == "desc":
            return stage, None
        # ---------------- S2: fit -------------------------------------------------------------------------
        data = _data_for(pipe)
        fit_desc = copy.deepcopy(pipe["fit_desc"])
        if has("data-wrong-columns"):
            data = np.column_stack([data, data[:, 0]]) if (len(pipe["dims"]) % 2) else data[:, :-1] if data.shape[1] > 1 else np.column_stack([data, data[:, 0]])
        if n > 1 and has("data-flat-single-column"):
            data = data[: (len(data) // n) * n, 0].copy()  # one column; its length is a multiple of n_dim
        if n > 1 and has("data-flat-raveled"):
            data = data.ravel()
        if n > 1 and has("data-flat-list"):
            data = data[: (len(data) // n) * n, 0].tolist()
        if has("fitdesc-wrong-length"):
            fit_desc = fit_desc + [{"method": "mle"}]
        for i in anyf("fitdesc-without-method"):
            fit_desc[i] = {"weights": None}
        for i in anyf("unknown-fit-method"):
            fit_desc[i] = {"method": "least_squares"}
        for i in anyf("unknown-weight-keyword"):
            fit_desc[i] = {"method": "wlsq", "weights": "quartic"}
        for i in anyf("noniterable-weights"):
            fit_desc[i] = {"method": "wlsq", "weights": 3.5}
        for i in anyf("unknown-weight-keyword/method-lsq"):
            fit_desc[i] = {"method": "lsq", "weights": "quartic"}
        for i in anyf("unknown-weight-keyword/method-WLSQ"):
            fit_desc[i] = {"method": "WLSQ", "weights": "quartic"}
        for i in anyf("noniterable-weights/method-Lsq"):
            fit_desc[i] = {"method": "Lsq", "weights": 3.5}
        for i in anyf("unknown-fit-method/empty-string"):
            fit_desc[i] = {"method": ""}
        for i in anyf("fit-method-none"):
            fit_desc[i] = {"method": None}
        for i in anyf("fit-method-none/with-unknown-weight-keyword"):
            fit_desc[i] = {"method": None, "weights": "quartic"}
        if has("fitdesc-one-entry-short"):
            fit_desc = fit_desc[:-1]
        if has("fitdesc-empty-list"):
            fit_desc = []
        if has("fitdesc-empty-tuple"):
            fit_desc = ()
        _fit_entry(pipe, model)(data, fit_desc)
        stage = 2
        # ---------------- S3: evaluation ----------------------------------------------------------------
        pts = np.array(pipe["points"], dtype=float)
        bad = {"nan-evaluation-point": np.nan, "inf-evaluation-point": np.inf, "neginf-evaluation-point": -np.inf}
        for cls_, val in bad.items():
            for i in anyf(cls_):
                pts[-1, i] = val
        cdf_bad = anyf("nan-evaluation-point-cdf")
        if cdf_bad:
            q = pts.copy()
            for i in cdf_bad:
                q[0, i] = np.nan
            model.cdf(q)
        model.pdf(pts)
        stage = 3
        # ---------------- S4: contour -------------------------------------------------------------------
        from virocon import AndContour, DirectSamplingContour, HighestDensityContour, IFORMContour, OrContour

        hdc = [c for (c, p) in fl if c.startswith("hdc")]
        if has("non-model-into-iform"):
            IFORMContour(descs, 0.05)
        elif any(c.startswith("3d-model-into") for (c, p) in fl):
            for cname, cls_ in (("3d-model-into-direct-sampling-contour", DirectSamplingContour), ("3d-model-into-and-contour", AndContour), ("3d-model-into-or-contour", OrContour)):
                if has(cname):
                    cls_(model, 0.1, sample=data[:200, :])
                if has(cname + "/2-column-sample"):
                    cls_(model, 0.1, sample=data[:300, :2].copy())
                if has(cname + "/own-sample"):
                    cls_(model, 0.1)
        elif hdc:
            limits = [(0.0, 8.0 + i) for i in range(n)]
            deltas = [0.5] * n
            if has("hdc-limits-wrong-length"):
                limits = limits + [(0.0, 5.0)]
            for i in anyf("hdc-limit-tuple-wrong-length"):
                limits[i] = (0.0, 4.0, 8.0)
            for i in anyf("hdc-limit-scalar-entry"):
                limits[i] = 8.0
            if has("hdc-deltas-wrong-length"):
                deltas = deltas + [0.5]
            HighestDensityContour(model, 0.1, limits=limits, deltas=deltas)
        else:
            c = pipe["contour"]
            IFORMContour(model, c["alpha"], n_points=c["n_points"])
        stage = 4
        return stage, None
    except Exception as e:  # noqa: BLE001 - every exception type is an accepted rejection
        return stage, e


def _as_conditional(desc, d, target):
    """turn dimension description into one conditional on `target`"""
    from virocon import DependenceFunction

    cls = _family_class(d["family"])
    pn = FAMILIES[d["family"]][1]
    fixed = d["fixed"] if d["cond_on"] is not None else FAMILIES[d["family"]][3]
    kwargs = {"f_" + p: v for p, v in fixed.items()}
    out = dict(desc)
    out["distribution"] = cls(**kwargs)
    out["conditional_on"] = target
    out["parameters"] = {p: DependenceFunction(make_func("poly1", [1.0, 1.0])) for p in pn if p not in fixed}
    return out


def latest_stage(pipe, f):
    if pipe["kind"] == "desc":
        return 1
    return STAGES.index(FULL_FAULTS[f["cls"]][0])


_TWIN_CACHE = {}


def execute_seq(prop, scen):
    run = core.Run(prop, scen)
    pipe = _pipe_of(scen)
    faults = scen["faults"]
    run.signature = core.digest(["seq", scen["base"], faults])
    with seams.recorded_warnings():
        seams.pin_global(core.h64("C18", scen["seed"]))
        key = ("seq", core.digest(pipe))
        if key not in _TWIN_CACHE:
            _TWIN_CACHE[key] = run_sequence(pipe, [{"cls": "none"}, {"cls": "none"}])
        traised, texc = _TWIN_CACHE[key]
        if any(traised):
            run.inconclusive = f"fault-free twin sequence raised: {texc!r}"[:200]
            return run
        # is the second request rejected by a *fresh* model?  (it may be something this slicer
        # legitimately accepts, e.g. equal-count intervals never leave too few)
        fresh, fexc = run_sequence(pipe, [faults[1]])
        if not fresh[0]:
            run.inconclusive = "second request is accepted by a fresh model as well (not ill-formed for this pipeline)"
            run.nontrivial = False
            return run
        if faults[0]["cls"] in ("narrow-data", "too-few-intervals-data", "one-interval-data"):
            # whether these data leave too few intervals depends on the slicer of the pipeline
            fresh0, _ = run_sequence(pipe, [faults[0]])
            if not fresh0[0]:
                run.inconclusive = "first request is accepted by a fresh model (not ill-formed for this pipeline)"
                run.nontrivial = False
                return run
        raised, exc = run_sequence(pipe, faults)
        run.event("sequence", faults, [raised, type(exc).__name__ if exc else None], ["F4:" + f["cls"] for f in faults])
        for f in faults:
            run.count("fault:F4-seq-" + f["cls"])
        if not raised[0] and faults[0]["cls"] != "dependence-fit-fails":
            run.violate("stage-computed-from-ill-formed-spec", faults[0]["cls"].split("@")[0], {"faults": faults, "note": "first request of the sequence accepted"})
            return run
        if raised[0]:
            run.count("probe:second-request-after-rejected-fit")
        if not raised[1]:
            run.violate("stage-computed-from-ill-formed-spec", faults[1]["cls"].split("@")[0] + "/after-rejected-fit", {"faults": faults, "first_request_raised": raised[0], "note": "a fresh model rejects the second request; the model whose previous fit was rejected computed a result from it"})
    return run


def execute(prop, scen):
    if scen["kind"] == "seq":
        return execute_seq(prop, scen)
    run = core.Run(prop, scen)
    pipe = _pipe_of(scen)
    faults = scen["faults"]
    run.signature = core.digest([scen["kind"], scen.get("n"), scen.get("cond"), scen.get("carrier"), scen.get("base"), faults])
    final = 1 if pipe["kind"] == "desc" else 4
    with seams.recorded_warnings():
        seams.pin_global(core.h64("C18", scen["seed"]))
        key = core.digest(pipe)
        if key not in _TWIN_CACHE:
            _TWIN_CACHE[key] = run_pipeline(pipe, [])
        tstage, texc = _TWIN_CACHE[key]
        run.event("twin", key, [tstage, repr(texc)[:80] if texc else None])
        if texc is not None or tstage != final:
            run.inconclusive = f"fault-free twin did not complete: stage {tstage} {texc!r}"[:200]
            return run
        stage, exc = run_pipeline(pipe, faults)
        L = min(latest_stage(pipe, f) for f in faults)
        run.event("faulted", faults, [stage, type(exc).__name__ if exc else None], ["F4:" + f["cls"] for f in faults])
        for f in faults:
            run.count("fault:F4-" + f["cls"])
        if exc is not None:
            run.count("rejected_with:" + type(exc).__name__)
        if stage >= L:
            # stage L returned normally although the specification was ill-formed
            worst = [f for f in faults if latest_stage(pipe, f) == L]
            site = "+".join(sorted(f["cls"] for f in worst))
            run.violate(
                "stage-computed-from-ill-formed-spec",
                site,
                {"faults": faults, "latest_admissible_stage": STAGES[L], "stages_completed": STAGES[stage], "later_exception": repr(exc)[:200] if exc else None, "carrier": scen.get("carrier"), "cond": scen.get("cond")},
            )
    return run


def shrink_candidates(prop, scen):
    if scen["kind"] == "seq":
        return
    if len(scen["faults"]) > 1:
        for i in range(len(scen["faults"])):
            c = copy.deepcopy(scen)
            del c["faults"][i]
            c["mode"] = "single"
            yield c
    if scen["kind"] == "desc":
        if scen["carrier"] != "Weibull":
            c = copy.deepcopy(scen)
            c["carrier"] = "Weibull"
            yield c
        # smaller structure with the same fault position
        n = scen["n"]
        maxpos = max([f["pos"] or 0 for f in scen["faults"]])
        for m in range(max(2, maxpos + 1), n):
            for cond in structures(m):
                c = copy.deepcopy(scen)
                c["n"], c["cond"] = m, cond
                probe = base_pipeline(m, cond, ["Weibull"] * m, "desc")
                if all(f["pos"] in applicable(probe, f["cls"]) for f in c["faults"]):
                    yield c
                    break


def describe(prop):
    return {
        "rule": (
            f"fault enumeration: every single malformation class of the property's list x every position x every carrier family x every "
            f"conditional_on structure of 1-4 dimensions ({len(cases())} cases, enumerated completely in every run of either tier), then seeded pairs. "
            "distinct = distinct (pipeline, fault list); non-trivial = the fault-free twin completed, so the exception (or its absence) is attributable to the fault."
        ),
        "exhaustive": False,
        "real": ["virocon GlobalHierarchicalModel / ConditionalDistribution constructors", "GlobalHierarchicalModel.fit", "pdf / cdf", "IFORM / HDC / DirectSampling / And / Or contour constructors", "all three interval slicers"],
        "stub": ["none (data sets are drawn by the harness from the pipeline's ground truth)"],
        "assumptions": [
            "latest admissible stage: model-description faults must be rejected by the model constructor; the 'likewise rejected' faults by the first stage that computes with the malformed item",
            "any exception type is accepted as a rejection",
            "negative conditional_on counts as a non-existent variable",
            'data-made malformations (narrow data, coinciding values) are judged only on pipelines where a fresh model rejects them',
        ],
        "probes": ["second-request-after-rejected-fit"],
    }
