"""C16 - transformed models are exact push-forwards; Monte-Carlo conditionals match them.

System under simulation: a TransformedModel over the Windmeier / non-zero EW
structure (parameters fitted to a seeded sub-sample of the shipped data, or
drawn in admissible ranges), its `random_state`, NumPy's global legacy RNG
(pinned / skewed by the simulator), and its `_sample` cache history.

Reference model (independent of variable_transform.py and of the transform
triples in predefined.py): own closed forms s = 2 pi hs / (g tz^2), the exact
push-forward density, the exact conditional law of Tz given Hs by monotone
change of variables, the conditional law of Hs given Tz by 1-D quadrature.
"""

import copy
import math

import numpy as np
import scipy.stats as sts
from scipy.optimize import brentq

from sim import core, models, seams
from engines.rng_c07 import eps_dkw, _ks

NAME = "rng"
G = 9.81
TWO_PI_G = 2 * math.pi / G
F_THRESHOLD = 1e-7  # the sampler's documented density threshold
X_HI = 100.0  # the sampler's documented upper end


def tier_config(prop, tier):
    if tier == "quick":
        return {"runs": 160, "chunk": 2, "cap_s": 400, "det_seeds": 4, "shrink_budget": 40}
    return {"budget_s": 1500, "chunk": 2, "cap_s": 900, "det_seeds": 16, "shrink_budget": 60, "grace_s": 2400}


GIVEN_Q = [0.05, 0.3, 0.5, 0.8, 0.95, 0.99, 0.999, 0.9999]


def generate(prop, seed, tier):
    S = core.SeedStream(seed)
    kind = S.pick(["windmeier", "nonzero"])
    uni = {"kind": kind, "precision_factor": S.pick([0.1, 0.2, 0.5, 1.0]) if tier == "thorough" else S.pick([0.1, 0.2]), "random_state": S.pick([None, 0, 42, S.sub("rs") % 10000]), "rs_type": S.wpick([("int", 4), ("np.int64", 1), ("np.int32", 0.5)])}
    if S.chance(0.5):
        uni["params"] = {"mode": "fitted", "letter": S.pick(["A", "B", "C"]), "n": S.pick([1500, 3000]), "dseed": S.sub("d")}
    else:
        uni["params"] = {
            "mode": "drawn",
            "hs": [core.r6(S.uni(0.3, 0.6)), core.r6(S.uni(0.75, 0.9)), core.r6(S.uni(3.0, 8.0))],
            "alpha_s": [core.r6(S.uni(0.03, 0.06)), core.r6(S.uni(0.25, 1.1))],
            "beta_s": [core.r6(S.uni(1.1, 1.7)), core.r6(S.uni(0.15, 0.95))],
        }
    ops = []
    n_ops = S.int(2, 4)
    for k in range(n_ops):
        op = S.wpick([("transforms", 1), ("pushforward", 2), ("draw", 2), ("cond_sample", 4), ("cond_cdf", 1.5), ("cond_icdf", 2), ("iform", 2.5), ("cache", 0.8), ("cdf_empirical", 0.5 if tier == "thorough" else 0.35), ("skew", 0.7), ("sample_law", 0.8), ("cache_iform_sample", 0.8), ("cond_sample_small", 0.7), ("empirical_with_sample", 0.7)])
        if op == "sample_law":
            ops.append({"op": "sample_law", "pin": S.sub("slpin", k)})
            continue
        if op == "cond_sample_small":
            ops.append({"op": "cond_sample_small", "dim": 1, "given_q": S.pick([0.3, 0.5, 0.8, 0.95]), "n": S.pick([1, 2, 5]), "reps": 2500, "seed0": S.sub("css", k) % 100000, "pin": S.sub("csp", k)})
            continue
        if op == "empirical_with_sample":
            ops.append({"op": "empirical_with_sample", "n": S.pick([1000, 150000, 250001]), "q": [core.r6(S.uni(0.3, 0.9)), core.r6(S.uni(0.3, 0.9))], "pin": S.sub("ews", k), "points": S.wpick([("float", 3), ("int_array", 1), ("int_list", 1), ("float_list", 1)])})
            continue
        if op == "cache_iform_sample":
            # history: the cached sample exists, a contour is computed, the sample is looked at again
            ops.append({"op": "sample_law", "pin": S.sub("slpin", k)})
            ops.append({"op": "iform", "alpha": S.pick([0.2, 0.1, 0.05]), "n_points": 4, "pin": S.sub("ipin", k), "repeat": S.chance(0.6)})
            ops.append({"op": "sample_law", "pin": S.sub("slpin2", k)})
            continue
        if op == "transforms":
            ops.append({"op": op, "pseed": S.sub("t", k), "n": 50})
        elif op == "pushforward":
            ops.append({"op": op, "pseed": S.sub("p", k), "n": 40})
        elif op == "draw":
            ops.append({"op": op, "n": S.wpick([(1, 1), (5, 1), (1000, 1), (50000, 1), (1500000, 0.6)]), "pin": S.sub("pin", k)})
        elif op in ("cond_sample", "cond_cdf", "cond_icdf"):
            dim = S.wpick([(1, 4), (0, 1)])
            o = {"op": op, "dim": dim, "given_q": S.pick(GIVEN_Q if dim == 1 else [0.05, 0.3, 0.5, 0.8, 0.95]), "seed": S.pick([None, S.sub("cs", k) % 100000])}
            if dim == 0 and S.chance(0.4):
                # short periods: the conditional law of Hs given Tz then sits close to zero
                o["given_literal"] = S.pick([1.0, 1.5, 2.0, 2.5])
            if op == "cond_sample":
                o["n"] = S.pick([20000, 100000])
                if S.chance(0.15):
                    o["n"], o["max_iter"] = 20000, S.pick([1, 2, 3])
                if dim == 1 and S.chance(0.3):
                    # another live model (other parameters) is asked first, for the very same conditioning value
                    o["n"] = 20000
                    o["other_first"] = {"hs_scale": core.r6(S.uni(1.3, 1.8)), "alpha_s": core.r6(S.uni(1.2, 1.6)), "beta_s": core.r6(S.uni(0.6, 0.85))}
                    o["given_literal"] = S.pick([1.0, 2.0, 3.0, 4.0, 5.0])
            if op == "cond_cdf":
                o["levels"] = [core.r6(S.uni(0.02, 0.98)) for _ in range(2)]
            if op == "cond_icdf":
                o["p"] = [S.pick([0.001, 0.01, 0.05, 0.2, 0.5, 0.8, 0.95, 0.99, 0.999]) for _ in range(2)]
                o["precision_factor"] = S.pick([0.1, 0.2])
                if S.chance(0.25):
                    # one call, entries that need samples of different sizes (the size follows from p)
                    o["p"] = [S.pick([0.2, 0.5, 0.8]), S.pick([2.5e-4, 1 - 2.5e-4])]
                    o["precision_factor"] = 1.0
                    if S.chance(0.3):
                        o["p"].reverse()
            o["pin"] = S.sub("cpin", k)
            ops.append(o)
        elif op == "iform":
            ops.append({"op": op, "alpha": S.pick([0.2, 0.1, 0.05, 0.02]), "n_points": S.pick([4, 6, 8]), "pin": S.sub("ipin", k), "repeat": S.chance(0.6)})
        elif op == "cache":
            ops.append({"op": op, "letter": S.pick(["A", "B", "C"]), "n": 1500, "dseed": S.sub("cd", k), "pin": S.sub("kpin", k)})
        elif op == "cdf_empirical":
            ops.append({"op": op, "q": [core.r6(S.uni(0.3, 0.9)), core.r6(S.uni(0.3, 0.9))], "pin": S.sub("epin", k), "on_copy": S.chance(0.5), "copy_scale": core.r6(S.uni(1.3, 1.7))})
        else:
            ops.append({"op": "skew", "k": S.sub("sk", k)})
    return {"engine": NAME, "property": prop, "seed": seed, "universe": uni, "ops": ops}


# --------------------------------------------------------------------------
# reference model
# --------------------------------------------------------------------------


class Ref:
    """Exact laws of the transformed model, computed from the public parameter
    values of the base model with the harness's own formulas."""

    def __init__(self, t_model, kind):
        base = t_model.model
        p = base.distributions[0].parameters
        self.hs = (float(p["alpha"]), float(p["beta"]), float(p["delta"]))
        cd = base.distributions[1]
        self.delta_s = float(cd.fixed_parameters["delta"])
        self.a_par = [float(v) for v in cd.conditional_parameters["alpha"].parameters.values()]
        self.b_par = [float(v) for v in cd.conditional_parameters["beta"].parameters.values()]
        self.shift = 0.006 if kind == "nonzero" else 0.0
        self._cache = {}

    # own dependence formulas (definition of the model structure)
    def alpha_s(self, h):
        a, b = self.a_par
        return self.shift + a * (1 - np.exp(-b * h))

    def beta_s(self, h):
        a, b = self.b_par
        return a + b * h

    # marginal of Hs
    def hs_cdf(self, h):
        a, b, d = self.hs
        return sts.exponweib.cdf(h, d, b, scale=a)

    def hs_pdf(self, h):
        a, b, d = self.hs
        return sts.exponweib.pdf(h, d, b, scale=a)

    def hs_ppf(self, q):
        a, b, d = self.hs
        return sts.exponweib.ppf(q, d, b, scale=a)

    # steepness given hs
    def s_cdf(self, s, h):
        return sts.exponweib.cdf(s, self.delta_s, self.beta_s(h), scale=self.alpha_s(h))

    def s_pdf(self, s, h):
        return sts.exponweib.pdf(s, self.delta_s, self.beta_s(h), scale=self.alpha_s(h))

    def s_ppf(self, q, h):
        return sts.exponweib.ppf(q, self.delta_s, self.beta_s(h), scale=self.alpha_s(h))

    # own transforms
    @staticmethod
    def to_s(h, t):
        return TWO_PI_G * h / (t * t)

    @staticmethod
    def to_tz(h, s):
        return np.sqrt(TWO_PI_G * h / s)

    def joint_pdf(self, h, t):
        h = np.asarray(h, dtype=float)
        t = np.asarray(t, dtype=float)
        with np.errstate(all="ignore"):
            s = self.to_s(h, t)
            jac = 2 * TWO_PI_G * h / t**3
            f = self.hs_pdf(h) * self.s_pdf(s, h) * jac
        return np.where(np.isfinite(f), f, 0.0)

    # Tz | Hs = h  (monotone change of variables)
    def tz_cdf(self, t, h):
        return 1.0 - self.s_cdf(self.to_s(h, np.asarray(t, dtype=float)), h)

    def tz_ppf(self, q, h):
        return self.to_tz(h, self.s_ppf(1.0 - np.asarray(q, dtype=float), h))

    # Hs | Tz = t  (1-D quadrature on a fine geometric grid)
    def _hs_given_tz(self, t):
        key = ("h|t", float(t))
        if key not in self._cache:
            grid = np.concatenate([[0.0], np.geomspace(1e-8, X_HI, 60000)])
            f = self.joint_pdf(grid, np.full_like(grid, t))
            cum = np.concatenate([[0.0], np.cumsum(0.5 * (f[1:] + f[:-1]) * np.diff(grid))])
            self._cache[key] = (grid, f, cum / cum[-1], cum[-1])
        return self._cache[key]

    def hs_cdf_given_tz(self, h, t):
        grid, f, cdf, _ = self._hs_given_tz(t)
        return np.interp(h, grid, cdf)

    def cond_cdf(self, x, dim, given):
        return self.tz_cdf(x, given) if dim == 1 else self.hs_cdf_given_tz(x, given)

    def cond_ppf(self, q, dim, given):
        if dim == 1:
            return self.tz_ppf(q, given)
        grid, f, cdf, _ = self._hs_given_tz(given)
        return np.interp(q, cdf, grid)

    def support_end(self, dim, given):
        """c* = sup{x <= 100 : joint density(x, given) >= 1e-7} and the mass beyond it"""
        key = ("c", dim, float(given))
        if key in self._cache:
            return self._cache[key]
        xs = np.geomspace(1e-4, X_HI, 6000)
        f = self.joint_pdf(np.full_like(xs, given), xs) if dim == 1 else self.joint_pdf(xs, np.full_like(xs, given))
        ok = np.nonzero(f >= F_THRESHOLD)[0]
        if len(ok) == 0:
            res = (None, 1.0)
        else:
            i = ok[-1]
            if i == len(xs) - 1:
                c = X_HI
            else:
                g = (lambda x: float(self.joint_pdf(given, x) - F_THRESHOLD)) if dim == 1 else (lambda x: float(self.joint_pdf(x, given) - F_THRESHOLD))
                try:
                    c = brentq(g, xs[i], xs[i + 1])
                except ValueError:
                    c = xs[i]
            res = (float(c), float(1.0 - self.cond_cdf(c, dim, given)))
        self._cache[key] = res
        return res


# --------------------------------------------------------------------------
# universe
# --------------------------------------------------------------------------


def _rs(uni):
    rs = uni["random_state"]
    if rs is None:
        return None
    return {"int": int, "np.int64": np.int64, "np.int32": np.int32}[uni.get("rs_type", "int")](rs)


def build(uni):
    p = uni["params"]
    if p["mode"] == "fitted":
        t, data, sem = models.build_predefined(uni["kind"], p["letter"], p["n"], p["dseed"], transformed=True, precision_factor=uni["precision_factor"], random_state=_rs(uni))
        return t
    t, data, sem = models.build_predefined(uni["kind"], "A", 10, 0, fit=False, transformed=True, precision_factor=uni["precision_factor"], random_state=_rs(uni))
    base = t.model
    d0 = base.distributions[0]
    d0.alpha, d0.beta, d0.delta = p["hs"]
    cd = base.distributions[1]
    for name, vals in (("alpha", p["alpha_s"]), ("beta", p["beta_s"])):
        dep = cd.conditional_parameters[name]
        dep.parameters = dict(zip(dep.parameters.keys(), vals))
    return t


def in_domain(ref, dim, given):
    """Is this conditioning value inside the sampler's documented domain?"""
    c, m0 = ref.support_end(dim, given)
    if c is None or c >= X_HI or m0 > 0.01:
        return False, c, m0
    q_hi = float(ref.cond_ppf(1 - 1e-6, dim, given))
    if not math.isfinite(q_hi) or q_hi >= X_HI:
        return False, c, m0
    return True, c, m0


def given_value(ref, dim, q):
    if dim == 1:
        return float(ref.hs_ppf(q))
    # a typical Tz: conditional median of Tz at the q-quantile of Hs
    h = float(ref.hs_ppf(q))
    return float(ref.tz_ppf(0.5, h))


# --------------------------------------------------------------------------
# execution
# --------------------------------------------------------------------------


class ApiRaised(Exception):
    def __init__(self, exc):
        self.exc = exc


_CUR = {}


def api(fn, *a, **kw):
    """call into virocon; an exception there is an outcome of the run, not a harness error"""
    try:
        return fn(*a, **kw)
    except Exception as e:  # noqa: BLE001
        raise ApiRaised(e)


def execute(prop, scen):
    try:
        return _execute(prop, scen)
    except ApiRaised as a:
        run, op = _CUR["run"], _CUR["op"]
        run.violate("I0-operation-raises", f"{op['op']}/{type(a.exc).__name__}", {"op": {k_: v_ for k_, v_ in op.items() if k_ != "pin"}, "exc": repr(a.exc)[:300]})
        return run


def _execute(prop, scen):
    import virocon
    from virocon import IFORMContour, variable_transform as vt

    run = core.Run(prop, scen)
    uni = scen["universe"]
    run.signature = core.digest([uni["kind"], uni["params"]["mode"], uni["random_state"] is None, uni.get("rs_type"), [(o["op"], o.get("dim"), o.get("given_q"), o.get("seed") is None) for o in scen["ops"]]])
    with seams.recorded_warnings():
        seams.pin_global(core.h64(scen["seed"], "build"))
        try:
            t = build(uni)
        except RuntimeError as e:
            run.inconclusive = f"workload: model could not be fitted to the sub-sample ({str(e)[:60]})"
            return run
        ref = Ref(t, uni["kind"])
        run.event("build", uni, [ref.hs, ref.a_par, ref.b_par])
        for si, op in enumerate(scen["ops"]):
            _CUR["run"], _CUR["op"] = run, op
            k = op["op"]
            if k == "skew":
                seams.pin_global(op["k"])
                np.random.random(11)
                run.count("fault:F3-global-rng-skew")
                run.event("skew", op, None, ["F3"])
                continue
            if "pin" in op:
                seams.pin_global(op["pin"])
            if k == "transforms":
                rng = np.random.default_rng(op["pseed"])
                hs = 10 ** rng.uniform(-3, 2, op["n"])
                tz = 10 ** rng.uniform(-3, 2, op["n"])
                pairs = [("hs_tz_to_s_d", "s_d_to_hs_tz"), ("hs_tz_to_hs_s", "hs_s_to_hs_tz"), ("hs_tz_to_s_tz", "s_tz_to_hs_tz")]
                for fwd, inv in pairs:
                    a, b = getattr(vt, fwd)(hs, tz)
                    # the property's domain: hs, tz, s and d all within (1e-3, 1e2)
                    m = (a > 1e-3) & (a < 1e2) & (b > 1e-3) & (b < 1e2)
                    h2, t2 = getattr(vt, inv)(a[m], b[m])
                    run.count("transform_roundtrips", int(m.sum()))
                    if not (np.allclose(h2, hs[m], rtol=1e-9, atol=0) and np.allclose(t2, tz[m], rtol=1e-9, atol=0)):
                        run.violate("I1-inverse-of-transform", f"{fwd}", {"max_rel_dev": float(max(np.max(np.abs(h2 / hs[m] - 1)), np.max(np.abs(t2 / tz[m] - 1)))), "step": si})
                        return run
                s_ref = Ref.to_s(hs, tz)
                s_v, _ = vt.hs_tz_to_s_d(hs, tz)
                if not np.allclose(s_v, s_ref, rtol=1e-12):
                    run.violate("I1-transform-closed-form", "steepness", {"step": si})
                    return run
                X = np.column_stack([hs, tz])
                Y = t.transform(X)
                back = t.inverse(Y)
                if not np.allclose(back, X, rtol=1e-9, atol=0):
                    run.violate("I1-inverse-of-transform", "model-transform-triple", {"max_rel_dev": float(np.max(np.abs(back / X - 1))), "step": si})
                    return run
                jac = np.asarray(t.jacobian(X), dtype=float)
                hstep = 1e-6 * tz
                num = np.abs((Ref.to_s(hs, tz + hstep) - Ref.to_s(hs, tz - hstep)) / (2 * hstep))  # d hs/d hs = 1, d hs/d tz = 0
                run.count("jacobian_comparisons")
                if not np.allclose(jac, num, rtol=1e-6, atol=0):
                    run.violate("I1-jacobian", "model-transform-triple", {"max_rel_dev": float(np.max(np.abs(jac / num - 1))), "step": si})
                    return run
                run.event(k, op["n"], None)
            elif k == "pushforward":
                rng = np.random.default_rng(op["pseed"])
                h = ref.hs_ppf(rng.uniform(0.02, 0.98, op["n"]))
                tz = np.array([float(ref.tz_ppf(u, hh)) for u, hh in zip(rng.uniform(0.02, 0.98, op["n"]), h)])
                X = np.column_stack([h, tz])
                got = np.asarray(api(t.pdf, X), dtype=float)
                want = ref.joint_pdf(h, tz)
                run.count("pdf_comparisons")
                run.event(k, op["n"], got)
                if not np.allclose(got, want, rtol=1e-9, atol=1e-300):
                    run.violate("I2-pdf-is-pushforward", uni["kind"], {"max_rel_dev": float(np.max(np.abs(got / want - 1))), "step": si})
                    return run
            elif k == "draw":
                x = np.asarray(api(t.draw_sample, op["n"]))
                run.event(k, op["n"], x)
                if x.shape != (op["n"], 2):
                    run.violate("I2-sample-shape", "draw_sample", {"shape": list(x.shape), "n": op["n"], "step": si})
                    return run
                # the same draw from the base model, under the same RNG conditions, inverse-transformed by the reference
                if uni["random_state"] is None:
                    seams.pin_global(op["pin"])
                    b = np.asarray(t.model.draw_sample(op["n"]))
                else:
                    b = np.asarray(t.model.draw_sample(op["n"], random_state=_rs(uni)))
                want = np.column_stack([b[:, 0], Ref.to_tz(b[:, 0], b[:, 1])])
                run.count("inverse_transform_comparisons")
                if x.shape != want.shape or not np.allclose(x, want, rtol=1e-12, atol=0):
                    nbad = int(np.sum(~np.isclose(x, want, rtol=1e-12, atol=0).all(axis=1))) if x.shape == want.shape else None
                    run.violate("I2-samples-are-inverse-transformed-base-samples", "draw_sample", {"n": op["n"], "rows_differing": nbad, "seeded": uni["random_state"] is not None, "step": si})
                    return run
                if op["n"] >= 1000:
                    # law: Hs marginal, Tz | Hs through the Rosenblatt image, which must also be
                    # independent of Hs (uniform within quantile bins of Hs)
                    u0 = ref.hs_cdf(x[:, 0])
                    u1 = ref.tz_cdf(x[:, 1], x[:, 0])
                    for nm, u in (("hs", u0), ("tz|hs", u1)):
                        run.count("dkw_comparisons")
                        if not _ks(u) <= eps_dkw(len(u)):
                            run.violate("I2-sample-law", nm, {"sup_distance": _ks(u), "eps_dkw": eps_dkw(len(u)), "step": si})
                            return run
                    order = np.argsort(x[:, 0], kind="stable")
                    for b, idx in enumerate(np.array_split(order, 5)):
                        run.count("dkw_comparisons")
                        d_ = _ks(u1[idx])
                        if not d_ <= eps_dkw(len(idx)):
                            run.violate("I2-sample-law", "tz|hs-within-hs-bin", {"bin": b, "sup_distance": d_, "eps_dkw": eps_dkw(len(idx)), "random_state": repr(_rs(uni)), "step": si})
                            return run
            elif k in ("cond_sample", "cond_cdf", "cond_icdf"):
                dim = op["dim"]
                g = given_value(ref, dim, op["given_q"]) if op.get("given_literal") is None else float(op["given_literal"])
                ok, c_star, m0 = in_domain(ref, dim, g)
                if not ok:
                    run.count("outside_documented_sampler_domain")
                    run.event(k, [dim, op["given_q"]], "outside-domain")
                    continue
                site = f"dim{dim}"
                if k == "cond_sample" and op.get("other_first"):
                    of = op["other_first"]
                    uni2 = copy.deepcopy(uni)
                    p2 = uni2["params"]
                    p2["mode"] = "drawn"
                    p2["hs"] = [ref.hs[0] * of["hs_scale"], ref.hs[1], ref.hs[2]]
                    p2["alpha_s"] = [ref.a_par[0] * of["alpha_s"]] + list(ref.a_par[1:])
                    p2["beta_s"] = [ref.b_par[0] * of["beta_s"]] + list(ref.b_par[1:])
                    t2 = build(uni2)
                    try:
                        t2.conditional_sample(2000, dim, [g], random_state=op["seed"])
                    except Exception:  # noqa: BLE001 - the other model's own business
                        pass
                    run.count("probe:another-model-asked-first-at-the-same-conditioning-value")
                    site = f"dim{dim}/after-another-model"
                if k == "cond_sample" and op.get("max_iter"):
                    # the caller limits the number of proposal rounds: fewer realisations may come back
                    # (a warning says so), but every one of them is a realisation of the conditional law
                    x = np.asarray(api(t.conditional_sample, op["n"], dim, [g], random_state=op["seed"], max_iter=op["max_iter"]), dtype=float)
                    run.event(k, [dim, op["given_q"], op["n"], op["seed"], op["max_iter"]], x)
                    run.count("probe:conditional-sample-with-few-proposal-rounds")
                    # (how many come back on this path is not specified: the unchanged code returns every
                    # accepted proposal of the last round, which can be more than n)
                    if len(x) >= 500:
                        if not np.all(np.isfinite(x)) or np.any(x <= 0):
                            run.violate("I3-conditional-sample-law", site + "/max_iter", {"given": g, "what": "non-finite or non-positive realisations", "n_returned": len(x), "step": si})
                            return run
                        d = _ks(ref.cond_cdf(x, dim, g))
                        run.count("dkw_comparisons")
                        if not d <= eps_dkw(len(x)) + m0:
                            run.violate("I3-conditional-sample-law", site + "/max_iter", {"given": g, "sup_distance": d, "eps_dkw": eps_dkw(len(x)), "n_returned": len(x), "max_iter": op["max_iter"], "step": si})
                            return run
                    continue
                if k == "cond_sample":
                    g_arg = [g]
                    if op.get("given_literal") is not None and float(g).is_integer() and si % 2 == 0:
                        g_arg = [int(g)]  # a whole number written as an integer (Hs = 3 m)
                        run.count("probe:integer-typed-conditioning-value")
                    x = np.asarray(api(t.conditional_sample, op["n"], dim, g_arg, random_state=op["seed"]), dtype=float)
                    run.event(k, [dim, op["given_q"], op["n"], op["seed"]], x)
                    if len(x) != op["n"]:
                        run.violate("I3-conditional-sample-size", site, {"got": len(x), "want": op["n"], "given": g, "step": si})
                        return run
                    u = ref.cond_cdf(x, dim, g)
                    d = _ks(u)
                    run.count("dkw_comparisons")
                    if not d <= eps_dkw(len(x)) + m0:
                        run.violate("I3-conditional-sample-law", site, {"given": g, "given_quantile": op["given_q"], "sup_distance": d, "eps_dkw": eps_dkw(len(x)), "designed_away_mass": m0, "n": len(x), "step": si})
                        return run
                    # tail coverage: P(max of n draws <= m) = (F(m)/F(c*))^n for the documented sampler
                    Fm = float(ref.cond_cdf(float(np.max(x)), dim, g))
                    Fc = float(ref.cond_cdf(c_star, dim, g))
                    run.count("tail_coverage_checks")
                    if Fm < Fc:
                        logp = len(x) * math.log(max(Fm, 1e-300) / Fc)
                        if logp < math.log(1e-12):
                            run.violate(
                                "I3-conditional-tail-truncated",
                                f"{site}/upper",
                                {"given": g, "given_quantile": op["given_q"], "largest_sample": float(np.max(x)), "density_threshold_support_end": c_star, "exact_quantile_1-1e-4": float(ref.cond_ppf(1 - 1e-4, dim, g)), "log_probability_of_this_gap": logp, "n": len(x), "step": si},
                            )
                            return run
                    # same seed reproduces
                    if op["seed"] is not None and op["n"] <= 20000:
                        x2 = np.asarray(api(t.conditional_sample, op["n"], dim, [g], random_state=op["seed"]), dtype=float)
                        if not np.array_equal(x, x2):
                            run.violate("I5-seeded-conditional-sample-reproduces", site, {"step": si})
                            return run
                elif k == "cond_cdf":
                    # one conditioning value per entry (the second entry uses a neighbouring one)
                    g2 = given_value(ref, dim, max(0.05, op["given_q"] - 0.2)) if dim == 1 else g
                    if not in_domain(ref, dim, g2)[0]:
                        g2 = g
                    gs = [g, g2][: len(op["levels"])]
                    xs = np.array([float(ref.cond_ppf(q, dim, gg)) for q, gg in zip(op["levels"], gs)])
                    got = np.asarray(api(t.conditional_cdf, xs, dim, [np.array([gg]) for gg in gs], random_state=op["seed"]), dtype=float)
                    run.event(k, [dim, op["given_q"], op["levels"]], got)
                    want = np.array([float(ref.cond_cdf(x_, dim, gg)) for x_, gg in zip(xs, gs)])
                    m0 = max(m0, in_domain(ref, dim, g2)[2])
                    tol = eps_dkw(100_000) + m0
                    run.count("dkw_comparisons", len(xs))
                    if not np.all(np.abs(got - want) <= tol):
                        run.violate("I3-conditional-cdf", site, {"given": g, "x": xs.tolist(), "got": got.tolist(), "exact": np.asarray(want).tolist(), "tolerance": tol, "step": si})
                        return run
                else:
                    ps = np.array(op["p"], dtype=float)
                    got = np.asarray(api(t.conditional_icdf, ps, dim, [np.array([g])] * len(ps), precision_factor=op["precision_factor"], random_state=op["seed"]), dtype=float)
                    run.event(k, [dim, op["given_q"], op["p"]], got)
                    if op["seed"] is not None:
                        # with a seed every entry is computed on its own: the entry of a batch equals the
                        # result of asking for it alone
                        for j_ in range(len(ps)):
                            alone = np.asarray(api(t.conditional_icdf, ps[j_ : j_ + 1], dim, [np.array([g])], precision_factor=op["precision_factor"], random_state=op["seed"]), dtype=float)
                            run.count("reproduction_checks")
                            if not np.array_equal(alone, got[j_ : j_ + 1]):
                                run.violate("I5-seeded-conditional-quantile-entrywise", site, {"given": g, "p": ps.tolist(), "entry": j_, "in_batch": float(got[j_]), "alone": float(alone[0]), "precision_factor": op["precision_factor"], "step": si})
                                return run
                    for p_, x_ in zip(ps, got):
                        p_small = p_ if p_ < 0.5 else 1 - p_
                        n_used = int(min(max((1 / p_small) * 100 * op["precision_factor"], 100_000), 10_000_000))
                        tol = eps_dkw(n_used) + 1.0 / n_used + m0
                        Fx = float(ref.cond_cdf(x_, dim, g))
                        run.count("dkw_comparisons")
                        if not abs(Fx - p_) <= tol:
                            run.violate("I3-conditional-quantile", site, {"given": g, "p": float(p_), "returned": float(x_), "exact_cdf_at_returned": Fx, "exact_quantile": float(ref.cond_ppf(p_, dim, g)), "tolerance": tol, "n_used": n_used, "step": si})
                            return run
            elif k == "iform":
                c1 = api(IFORMContour, t, op["alpha"], n_points=op["n_points"])
                xy = np.asarray(c1.coordinates, dtype=float)
                run.event(k, [op["alpha"], op["n_points"]], xy)
                beta = sts.norm.ppf(1 - op["alpha"])
                phi = np.linspace(0, 2 * np.pi, num=op["n_points"], endpoint=False)
                p0 = sts.norm.cdf(beta * np.cos(phi))
                p1 = sts.norm.cdf(beta * np.sin(phi))
                p_small = min(p0.min(), 1 - p0.max())
                n0 = max(int((1 / p_small) * 100 * uni["precision_factor"]), 100000)
                for j in range(op["n_points"]):
                    run.count("dkw_comparisons")
                    F0 = float(ref.hs_cdf(xy[j, 0]))
                    if not abs(F0 - p0[j]) <= eps_dkw(n0) + 1.0 / n0:
                        run.violate("I4-iform-first-coordinate", "marginal-quantile", {"point": j, "p": float(p0[j]), "returned": float(xy[j, 0]), "exact_cdf_at_returned": F0, "tolerance": eps_dkw(n0) + 1.0 / n0, "step": si})
                        return run
                    ok, c_star, m0 = in_domain(ref, 1, float(xy[j, 0]))
                    if not ok:
                        run.count("outside_documented_sampler_domain")
                        continue
                    ps = p1[j] if p1[j] < 0.5 else 1 - p1[j]
                    n_used = int(min(max((1 / ps) * 100 * 1.0, 100_000), 10_000_000))
                    tol = eps_dkw(n_used) + 1.0 / n_used + m0
                    F1 = float(ref.tz_cdf(xy[j, 1], xy[j, 0]))
                    run.count("dkw_comparisons")
                    if not abs(F1 - p1[j]) <= tol:
                        run.violate("I4-iform-second-coordinate", "conditional-quantile", {"point": j, "hs": float(xy[j, 0]), "p": float(p1[j]), "returned": float(xy[j, 1]), "exact_cdf_at_returned": F1, "exact_quantile": float(ref.tz_ppf(p1[j], xy[j, 0])), "tolerance": tol, "step": si})
                        return run
                if op["repeat"] and uni["random_state"] is not None:
                    # I5: reproduced exactly when the model's random_state is set - whatever the global RNG does
                    seams.pin_global(op["pin"] + 12345)
                    np.random.random(7)
                    run.count("fault:F3-global-rng-skew")
                    c2 = api(IFORMContour, t, op["alpha"], n_points=op["n_points"])
                    run.count("reproduction_checks")
                    if not np.array_equal(np.asarray(c2.coordinates, dtype=float), xy):
                        dv = np.max(np.abs(np.asarray(c2.coordinates, dtype=float) - xy), axis=0)
                        run.violate("I5-seeded-iform-reproduces", "iform", {"random_state": uni["random_state"], "max_abs_diff_per_coordinate": dv.tolist(), "step": si})
                        return run
            elif k == "cond_sample_small":
                # many small requests (n = 1, 2, 5), pooled: each draw must follow the conditional law
                g = given_value(ref, op["dim"], op["given_q"])
                ok, c_star, m0 = in_domain(ref, op["dim"], g)
                if not ok:
                    run.count("outside_documented_sampler_domain")
                    continue
                pooled = []
                for r_ in range(op["reps"]):
                    xs_ = np.asarray(api(t.conditional_sample, op["n"], op["dim"], [g], random_state=op["seed0"] + r_), dtype=float)
                    if len(xs_) != op["n"]:
                        run.violate("I3-conditional-sample-size", f"dim{op['dim']}/small-n", {"got": len(xs_), "want": op["n"], "step": si})
                        return run
                    pooled.append(xs_)
                pooled = np.concatenate(pooled)
                run.event(k, [op["dim"], op["given_q"], op["n"], op["reps"]], pooled)
                d_ = _ks(ref.cond_cdf(pooled, op["dim"], g))
                run.count("dkw_comparisons")
                run.count("probe:small-conditional-samples-pooled")
                if not d_ <= eps_dkw(len(pooled)) + m0:
                    run.violate("I3-conditional-sample-law", f"dim{op['dim']}/small-n", {"given": g, "n_per_request": op["n"], "requests": op["reps"], "sup_distance": d_, "eps_dkw": eps_dkw(len(pooled)), "designed_away_mass": m0, "step": si})
                    return run
            elif k == "empirical_with_sample":
                smp = np.asarray(api(t.draw_sample, op["n"]), dtype=float)
                h = float(ref.hs_ppf(op["q"][0]))
                tz = float(ref.tz_ppf(op["q"][1], h))
                pts = np.array([[h, tz], [h * 1.3, tz * 1.1]])
                pk = op.get("points", "float")
                if pk.startswith("int"):
                    # whole numbers, typed as integers (Hs = 2 m, Tz = 7 s is how such points get written)
                    pts = np.ceil(pts).astype(int)
                pts_arg = pts.tolist() if pk.endswith("list") else pts
                got = np.asarray(api(t.empirical_cdf, pts_arg, sample=smp), dtype=float)
                own = np.array([np.mean(np.all(smp <= p_, axis=1)) for p_ in pts])
                run.event(k, [op["n"], op["q"]], got)
                run.count("probe:empirical-cdf-with-caller-sample")
                if not np.allclose(got, own, rtol=0, atol=1e-12):
                    run.violate("I6-empirical-cdf-of-supplied-sample", "sample-argument", {"n": op["n"], "empirical_cdf": got.tolist(), "proportion_in_sample": own.tolist(), "step": si})
                    return run
                if op["n"] <= 150000:
                    # the caller's buffer refilled with another sample (the same array object, new contents)
                    smp[...] = np.asarray(api(t.draw_sample, op["n"]), dtype=float)[::-1] * np.array([1.1, 0.95])
                    got2 = np.asarray(api(t.empirical_cdf, pts_arg, sample=smp), dtype=float)
                    own2 = np.array([np.mean(np.all(smp <= p_, axis=1)) for p_ in pts])
                    run.count("probe:empirical-cdf-with-refilled-buffer")
                    if not np.allclose(got2, own2, rtol=0, atol=1e-12):
                        run.violate("I6-empirical-cdf-of-supplied-sample", "sample-argument/refilled-buffer", {"n": op["n"], "empirical_cdf": got2.tolist(), "proportion_in_sample": own2.tolist(), "step": si})
                        return run
            elif k == "sample_law":
                smp = np.asarray(api(lambda: t.sample), dtype=float)
                run.event(k, None, [smp.shape, float(smp[0, 0])])
                if smp.shape != (1_000_000, 2):
                    run.violate("I6-cached-sample-shape", "sample", {"shape": list(smp.shape), "step": si})
                    return run
                u0 = ref.hs_cdf(smp[:, 0])
                u1 = ref.tz_cdf(smp[:, 1], smp[:, 0])
                for nm, u in (("hs", u0), ("tz|hs", u1)):
                    run.count("dkw_comparisons")
                    if not _ks(u) <= eps_dkw(len(u)):
                        run.violate("I6-cached-sample-law", nm, {"sup_distance": _ks(u), "eps_dkw": eps_dkw(len(u)), "after": [o["op"] for o in scen["ops"][:si]], "step": si})
                        return run
                order = np.argsort(smp[:, 0], kind="stable")
                for b_, idx in enumerate(np.array_split(order, 5)):
                    run.count("dkw_comparisons")
                    d_ = _ks(u1[idx])
                    if not d_ <= eps_dkw(len(idx)):
                        run.violate("I6-cached-sample-law", "tz|hs-within-hs-bin", {"bin": b_, "sup_distance": d_, "eps_dkw": eps_dkw(len(idx)), "after": [o["op"] for o in scen["ops"][:si]], "step": si})
                        return run
                pt = np.array([[float(ref.hs_ppf(0.6)), float(ref.tz_ppf(0.6, float(ref.hs_ppf(0.5))))]])
                e1 = float(api(t.empirical_cdf, pt)[0])
                own = float(np.mean(np.all(smp <= pt[0], axis=1)))
                if abs(e1 - own) > 1e-12:
                    run.violate("I6-empirical-cdf-of-own-sample", "cache", {"empirical_cdf": e1, "from_sample": own, "step": si})
                    return run
                run.count("probe:cached-sample-checked-after-other-operations" if si > 0 else "cached_sample_checked")
            elif k == "cache":
                pts = np.array([[float(ref.hs_ppf(0.6)), float(ref.tz_ppf(0.6, float(ref.hs_ppf(0.5))))]])
                e1 = float(t.empirical_cdf(pts)[0])
                smp = np.asarray(t.sample)
                own = float(np.mean(np.all(smp <= pts[0], axis=1)))
                if abs(e1 - own) > 1e-12:
                    run.violate("I6-empirical-cdf-of-own-sample", "cache", {"empirical_cdf": e1, "from_sample": own, "step": si})
                    return run
                e1b = float(t.empirical_cdf(pts)[0])
                if e1b != e1:
                    run.violate("I6-empirical-cdf-repeatable", "cache", {"step": si})
                    return run
                # re-fit to other data, then the empirical cdf must describe the re-fitted model
                data = models.dataset_for(uni["kind"], op["letter"], op["n"], op["dseed"])
                hs_tz = np.column_stack([data[:, 0], Ref.to_tz(data[:, 0], data[:, 1])])
                try:
                    desc, fit_desc, sem, tr = models.predefined(uni["kind"])
                    t.fit(hs_tz, fit_desc)
                except RuntimeError:
                    run.inconclusive = "workload: re-fit failed"
                    return run
                ref = Ref(t, uni["kind"])
                e2 = float(t.empirical_cdf(pts)[0])
                run.event(k, None, [e1, e2])
                # exact cdf of the re-fitted model at pts by 1-D quadrature over hs
                hh = np.concatenate([[0.0], np.geomspace(1e-8, pts[0, 0], 20000)])
                integrand = ref.hs_pdf(hh) * ref.tz_cdf(pts[0, 1], np.maximum(hh, 1e-12))
                integrand = np.where(np.isfinite(integrand), integrand, 0.0)
                exact = float(np.sum(0.5 * (integrand[1:] + integrand[:-1]) * np.diff(hh)))
                run.count("dkw_comparisons")
                run.count("probe:empirical-cdf-after-refit")
                if not abs(e2 - exact) <= eps_dkw(1_000_000) + 2e-4:
                    run.violate("I6-cache-stale-after-fit", "cache", {"empirical_cdf_after_fit": e2, "exact_cdf_of_refitted_model": exact, "empirical_cdf_before_fit": e1, "tolerance": eps_dkw(1_000_000) + 2e-4, "step": si})
                    return run
            elif k == "cdf_empirical" and op.get("on_copy"):
                # the user works on with a deep copy whose wave heights he rescales: the copy's cdf is the
                # integral of the copy's own density (judged against a sample drawn from the copy)
                t2 = copy.deepcopy(t)
                d0 = t2.model.distributions[0]
                d0.alpha = float(d0.alpha) * op["copy_scale"]
                smp2 = np.asarray(api(t2.draw_sample, 200000), dtype=float)
                h = float(np.quantile(smp2[:, 0], op["q"][0]))
                tz = float(np.quantile(smp2[:, 1], op["q"][1]))
                c = float(np.asarray(api(t2.cdf, [h, tz]))[0])
                e = float(np.mean((smp2[:, 0] <= h) & (smp2[:, 1] <= tz)))
                run.event(k, [op["q"], "copy"], [c, e])
                run.count("dkw_comparisons")
                run.count("probe:cdf-of-a-modified-deep-copy")
                if not abs(c - e) <= eps_dkw(200000) + 1e-4:
                    run.violate("I2-cdf-vs-empirical", "cdf-of-a-modified-deep-copy", {"cdf": c, "proportion_in_own_sample": e, "scale_of_hs_in_the_copy": op["copy_scale"], "step": si})
                    return run
            elif k == "cdf_empirical":
                h = float(ref.hs_ppf(op["q"][0]))
                tz = float(ref.tz_ppf(op["q"][1], h))
                c = float(np.asarray(t.cdf([h, tz]))[0])
                e = float(t.empirical_cdf([[h, tz]])[0])
                run.event(k, op["q"], [c, e])
                run.count("dkw_comparisons")
                if not abs(c - e) <= eps_dkw(1_000_000) + 1e-4:
                    run.violate("I2-cdf-vs-empirical", "cdf", {"cdf": c, "empirical": e, "step": si})
                    return run
    return run


def shrink_candidates(prop, scen):
    ops = scen["ops"]
    for i in range(len(ops)):
        if len(ops) > 1:
            c = copy.deepcopy(scen)
            del c["ops"][i]
            yield c
    for i, o in enumerate(ops):
        if o["op"] == "iform" and o["n_points"] > 4:
            c = copy.deepcopy(scen)
            c["ops"][i]["n_points"] = 4
            yield c
        if o["op"] == "cond_sample" and o["n"] > 20000:
            c = copy.deepcopy(scen)
            c["ops"][i]["n"] = 20000
            yield c


def describe(prop):
    return {
        "rule": (
            "one run = one TransformedModel (Windmeier or non-zero EW structure; parameters fitted to a seeded sub-sample or drawn in admissible ranges; seeded precision_factor and random_state) "
            "and 2-4 seeded operations out of: transform round trips and Jacobian, push-forward pdf, draw_sample, conditional_sample / conditional_cdf / conditional_icdf at conditioning "
            "values from the bulk to the 1-1e-4 quantile, IFORM contour (repeated under global-RNG skew when random_state is set), cache history [empirical_cdf, fit, empirical_cdf], cdf vs empirical cdf, "
            "global-RNG skew. distinct = distinct (kind, parameter mode, random_state set?, op sequence with dimension and conditioning quantile); non-trivial = every run that is not inconclusive."
        ),
        "real": ["TransformedModel", "MultivariateModel.conditional_sample / conditional_cdf / conditional_icdf / marginal_icdf", "IFORMContour (TransformedModel branch)", "variable_transform", "predefined transform triples", "GlobalHierarchicalModel base model"],
        "stub": ["none; the simulator pins / skews NumPy's global RNG between operations"],
        "assumptions": [
            "reference: own closed forms for steepness, exact conditional law of Tz given Hs by change of variables, Hs given Tz by quadrature on a 60000-point grid",
            "the sampler's documented design is respected: domain (0, 100), joint density below 1e-7 ignored; the designed-away mass m0 is added to every tolerance and conditioning values with m0 > 1 % or support beyond 100 are not judged",
            "DKW at error probability 1e-12 per comparison; tail-coverage bound (F(max)/F(c*))^n < 1e-12",
            'with a seed every entry of a batch of conditional quantiles equals the result of asking for it alone',
        ],
        "probes": ["empirical-cdf-after-refit", "cached-sample-checked-after-other-operations", "small-conditional-samples-pooled", "empirical-cdf-with-caller-sample", "another-model-asked-first-at-the-same-conditioning-value", "empirical-cdf-with-refilled-buffer", "cdf-of-a-modified-deep-copy", "integer-typed-conditioning-value"],
    }
