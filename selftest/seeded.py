#!/venv/bin/python
"""Runs the checks against the independently seeded changes kept under
/verif/seeded/<id>/ (patch.diff, demo.py, meta.json).

For each change: a scratch copy of /repo's package (outside /repo and /verif,
removed afterwards) gets the patch; the demonstration must fail there and pass
on /repo; then the property's check (quick by default) runs against the copy
and is expected to exit 1 with a VIOLATION line.

usage: selftest/seeded.py [--only id[,id]] [--tier quick] [--no-demo]
"""
import argparse
import json
import os
import shutil
import subprocess
import sys
import tempfile
import time

VERIF = os.path.dirname(os.path.dirname(os.path.abspath(__file__)))
REPO = "/repo"


def make_copy():
    root = tempfile.mkdtemp(prefix="virocon-seeded-")
    shutil.copytree(os.path.join(REPO, "virocon"), os.path.join(root, "virocon"), ignore=shutil.ignore_patterns("__pycache__"))
    for d in ("datasets", "tests"):
        os.symlink(os.path.join(REPO, d), os.path.join(root, d))
    return root


def run_demo(demo, root):
    env = dict(os.environ, PYTHONPATH=root, MPLBACKEND="Agg", PYTHONDONTWRITEBYTECODE="1")
    # the demonstrations were written at <worktree>/SEEDED/<A|B>/demo.py; some find the datasets
    # relative to their own location, so they are run from the same place in the scratch copy
    place = os.path.join(root, "SEEDED", "A")
    os.makedirs(place, exist_ok=True)
    demo = shutil.copy(demo, os.path.join(place, "demo.py"))
    p = subprocess.run(["/venv/bin/python", "-W", "ignore", demo], cwd=root, env=env, capture_output=True, text=True, timeout=900)
    return p.returncode


def main():
    ap = argparse.ArgumentParser()
    ap.add_argument("--only")
    ap.add_argument("--tier", default="quick")
    ap.add_argument("--no-demo", action="store_true")
    ap.add_argument("--merge", action="store_true", help="merge the results of this run into --out instead of replacing it")
    ap.add_argument("--suite", action="store_true", help="also confirm that the change passes the repository's own test suite")
    ap.add_argument("--out", default=os.path.join(VERIF, "selftest", "seeded_result.json"))
    args = ap.parse_args()
    base = os.path.join(VERIF, "seeded")
    ids = sorted(d for d in os.listdir(base) if os.path.isdir(os.path.join(base, d)))
    if args.only:
        ids = [i for i in ids if i in args.only.split(",")]
    results = []
    for sid in ids:
        d = os.path.join(base, sid)
        meta = json.load(open(os.path.join(d, "meta.json")))
        prop = meta["property"]
        root = make_copy()
        t0 = time.time()
        try:
            p = subprocess.run(["patch", "-p1", "-s", "-i", os.path.join(d, "patch.diff")], cwd=root, capture_output=True, text=True)
            if p.returncode != 0:
                print(sid, "patch does not apply:", p.stdout[-300:], p.stderr[-300:])
                # a change that a later repair of /repo made impossible to apply (and pointless) is kept for the record
                results.append({"id": sid, "property": prop, "applies": False, "neutralised_on_current_tree": meta.get("neutralised_by") is not None})
                continue
            demo_with = demo_without = None
            if not args.no_demo:
                demo_with = run_demo(os.path.join(d, "demo.py"), root)
                clean = make_copy()
                try:
                    demo_without = run_demo(os.path.join(d, "demo.py"), clean)
                finally:
                    shutil.rmtree(clean, ignore_errors=True)
            suite_ok = None
            if args.suite:
                e2 = dict(os.environ, PYTHONPATH=root, PYTHONDONTWRITEBYTECODE="1", MPLBACKEND="Agg")
                ps = subprocess.run(["/venv/bin/python", "-m", "pytest", "-q", "-p", "no:cacheprovider", "--no-cov", "--timeout=900", "-n", "8", "--deselect", "tests/test_workflows.py::test_v_hs_hd_contour", os.path.join(REPO, "tests")], cwd=root, env=e2, capture_output=True, text=True)
                suite_ok = ps.returncode == 0
                suite_tail = ps.stdout.strip().splitlines()[-1] if ps.stdout.strip() else ""
            env = dict(os.environ, VERIF_REPO=root)
            env.pop("VERIF_CHILD", None)
            c = subprocess.run([os.path.join(VERIF, "check"), prop, "--tier", args.tier, "--no-selftest", "--no-evidence"], env=env, capture_output=True, text=True)
            sigs = sorted({ln.split("signature=")[1].split()[0] for ln in c.stdout.splitlines() if "signature=" in ln})
            caught = c.returncode == 1 and "VIOLATION property=" in c.stdout
            # a change whose demonstration passes although it is applied no longer breaks the property on
            # the current tree (a later repair of /repo closed the hole it used)
            neutralised = (demo_with == 0) if demo_with is not None else meta.get("neutralised_by") is not None
            results.append({"id": sid, "property": prop, "applies": True, "demo_fails_with_change": None if demo_with is None else demo_with != 0, "demo_passes_without": None if demo_without is None else demo_without == 0, "passes_repo_suite": suite_ok, "caught": caught, "neutralised_on_current_tree": neutralised, "check_exit": c.returncode, "signatures": sigs[:6], "tier": args.tier, "wall_s": round(time.time() - t0, 1)})
            print(f"{sid:28s} {prop} caught={caught} exit={c.returncode} demo_with={demo_with} demo_without={demo_without} suite_ok={suite_ok} {sigs[:3]} {time.time() - t0:.0f}s", flush=True)
            if c.returncode not in (0, 1):
                print(c.stdout[-1200:], c.stderr[-1200:])
        finally:
            shutil.rmtree(root, ignore_errors=True)
    if not args.only or args.merge:
        merged = results
        if args.merge and os.path.exists(args.out):
            old = {r["id"]: r for r in json.load(open(args.out))}
            old.update({r["id"]: r for r in results})
            merged = [old[k] for k in sorted(old)]
        with open(args.out, "w") as f:
            json.dump(merged, f, indent=1)
    missed = [r["id"] for r in results if not r.get("caught") and not r.get("neutralised_on_current_tree")]
    print(f"{len(results) - len(missed)}/{len(results)} seeded changes caught; missed: {missed}")
    return 0


if __name__ == "__main__":
    sys.exit(main())
