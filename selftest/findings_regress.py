#!/venv/bin/python
"""Replays every committed finding against (a) the original tree (a scratch git
worktree of /repo at the commit before the first 'fix:' commit, outside /repo and
/verif, removed afterwards) - each must reproduce - and (b) /repo's working
tree - none of the fixed ones may reproduce."""
import json, os, subprocess, sys, tempfile, shutil

VERIF = os.path.dirname(os.path.dirname(os.path.abspath(__file__)))
ORIG = "c48c8f7"


def replay(prop, path, repo):
    env = dict(os.environ, VERIF_REPO=repo)
    env.pop("VERIF_CHILD", None)
    p = subprocess.run([os.path.join(VERIF, "check"), prop, "--replay", path], env=env, capture_output=True, text=True)
    return p.returncode, p.stdout


def main():
    known = json.load(open(os.path.join(VERIF, "known_findings.json")))["findings"]
    wt = tempfile.mkdtemp(prefix="virocon-orig-")
    os.rmdir(wt)
    subprocess.run(["git", "-C", "/repo", "worktree", "add", "--detach", wt, ORIG], check=True, capture_output=True)
    bad = 0
    try:
        seen = set()
        for f in known:
            rp = f.get("replay")
            if not rp or rp in seen:
                continue
            seen.add(rp)
            path = os.path.join(VERIF, rp)
            r0, out0 = replay(f["property"], path, wt)
            if r0 != 1 and f.get("commit"):
                # on the original tree an *earlier* defect can stop the history before the recorded one is
                # reached: the tree right before the repair is the one that must show it
                wt2 = tempfile.mkdtemp(prefix="virocon-before-")
                os.rmdir(wt2)
                subprocess.run(["git", "-C", "/repo", "worktree", "add", "--detach", wt2, f["commit"] + "^"], check=True, capture_output=True)
                try:
                    r0, out0 = replay(f["property"], path, wt2)
                    print(f"    (judged on {f['commit']}^, the tree right before the repair)")
                finally:
                    subprocess.run(["git", "-C", "/repo", "worktree", "remove", "--force", wt2], capture_output=True)
                    shutil.rmtree(wt2, ignore_errors=True)
            r1, out1 = replay(f["property"], path, "/repo")
            ok = (r0 == 1) and ((r1 == 0) if f["status"] == "fixed" else (r1 == 1))
            bad += not ok
            print(f"{'ok ' if ok else 'BAD'} {rp}: original tree exit={r0}, current tree exit={r1} ({f['status']})")
            if not ok:
                print(out0[-600:], out1[-600:])
    finally:
        subprocess.run(["git", "-C", "/repo", "worktree", "remove", "--force", wt], capture_output=True)
        shutil.rmtree(wt, ignore_errors=True)
    print("all findings behave as recorded" if not bad else f"{bad} finding(s) do not behave as recorded")
    return 1 if bad else 0


if __name__ == "__main__":
    sys.exit(main())
