#!/venv/bin/python
"""Determinism self-test: is one seed one exactly repeatable execution?

For each property N seeds are executed in fresh interpreters under different
conditions and the event-log digests are compared pairwise:
  a) PYTHONHASHSEED=0,    OMP threads 1, seeds in ascending order
  b) PYTHONHASHSEED=777,  OMP threads 8, seeds in descending order (so that whatever
     state a worker carries from earlier runs differs)
  c) PYTHONHASHSEED=31337, OMP threads 1, seeds shuffled, split over several processes
Any difference is a harness defect (exit 2), never a verdict about virocon.

usage: selftest/determinism.py [--props C14,C09] [--n 24]
"""
import argparse
import json
import os
import random
import subprocess
import sys
from concurrent.futures import ThreadPoolExecutor

VERIF = os.path.dirname(os.path.dirname(os.path.abspath(__file__)))
ALL = ["C07", "C09", "C11", "C14", "C16", "C18", "C19", "C20"]


def digests(prop, seeds, hashseed, omp, tier="quick"):
    env = dict(os.environ, VERIF_HASHSEED=str(hashseed), VERIF_OMP=str(omp))
    env.pop("VERIF_CHILD", None)
    p = subprocess.run([os.path.join(VERIF, "check"), prop, "--tier", tier, "--digests", ",".join(map(str, seeds))], env=env, capture_output=True, text=True)
    out = {}
    for ln in p.stdout.splitlines():
        if ln.startswith("DIGEST "):
            _, s, d, v = ln.split()
            out[int(s)] = (d, v)
    if p.returncode != 0:
        sys.stderr.write(p.stdout[-800:] + p.stderr[-800:])
    return out


def main():
    ap = argparse.ArgumentParser()
    ap.add_argument("--props", default=",".join(ALL))
    ap.add_argument("--n", type=int, default=24)
    ap.add_argument("--out", default=os.path.join(VERIF, "selftest", "determinism_result.json"))
    args = ap.parse_args()
    result = {}
    bad = 0
    for prop in args.props.split(","):
        seeds = [(0 << 20) + i for i in range(args.n)] + [(7 << 20) + i for i in range(args.n // 2)]
        rnd = random.Random(1)
        shuffled = seeds[:]
        rnd.shuffle(shuffled)
        parts = [shuffled[i::4] for i in range(4)]
        with ThreadPoolExecutor(max_workers=6) as ex:
            fa = ex.submit(digests, prop, seeds, 0, 1)
            fb = ex.submit(digests, prop, seeds[::-1], 777, 8)
            fcs = [ex.submit(digests, prop, part, 31337, 1) for part in parts]
            a, b = fa.result(), fb.result()
            c = {}
            for f in fcs:
                c.update(f.result())
        mism = [s for s in seeds if not (a.get(s) == b.get(s) == c.get(s)) or s not in a]
        result[prop] = {"seeds": len(seeds), "pairs_compared": 2 * len(seeds), "mismatches": mism}
        bad += len(mism)
        print(f"{prop}: {len(seeds)} seeds x 3 conditions, mismatches: {mism[:5]}", flush=True)
    with open(args.out, "w") as f:
        json.dump(result, f, indent=1)
    return 2 if bad else 0


if __name__ == "__main__":
    sys.exit(main())
