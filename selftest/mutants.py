#!/venv/bin/python
"""Sensitivity self-test: would the checks notice?

Each mutant is a textual edit of one virocon source file.  The driver copies
/repo/virocon to a scratch directory outside /repo and /verif, applies the
edit, optionally confirms that the mutant survives the repository's own test
suite, runs the property's quick check against the copy (VERIF_REPO) and
expects exit code 1 with a VIOLATION line.  The scratch copy is removed
immediately afterwards.

usage: selftest/mutants.py [--only ID[,ID..]] [--prop C14] [--suite] [--tier quick]
"""

import argparse
import json
import os
import shutil
import subprocess
import sys
import tempfile
import time

VERIF = os.path.dirname(os.path.dirname(os.path.abspath(__file__)))
REPO = "/repo"

# id, property, file, old, new, note
MUTANTS = [
    # ---------------- C14 ----------------
    ("c14-no-callback", "C14", "dependencies.py", "        for dependent in self.dependents:\n            dependent.callback(self)", "        for dependent in self.dependents:\n            pass", "dependents are never told that a conditioner was fitted"),
    ("c14-no-signal-at-late-registration", "C14", "dependencies.py", "        if getattr(self, \"_fitted\", False):", "        if False:", "the original defect repaired by 32985e9: a dependent declared after its conditioner was fitted waits forever"),
    ("c14-no-refit-in-callback", "C14", "dependencies.py", "                self.fit(self.x, self.y)", "                pass", "callback does not re-fit a function whose fit was deferred"),
    ("c14-subset-reversed", "C14", "dependencies.py", "if set(self.dependent_parameters.values()).issubset(self._fitted_conditioners):", "if self._fitted_conditioners.issubset(self.dependent_parameters.values()):", "the original defect: premature fit with two conditioners"),
    ("c14-warm-start", "C14", "dependencies.py", 'p0 = tuple(getattr(self, "_start_parameters", self.parameters).values())', "p0 = tuple(self.parameters.values())", "the original defect: fits start from the previous result"),
    ("c14-swap-bounds", "C14", "_fitting.py", "    return [lower_bounds, upper_bounds]", "    return [[-np.inf if u == np.inf else -abs(u) for u in upper_bounds], upper_bounds]", "lower bounds lost"),
    ("c14-return-p0", "C14", "_fitting.py", "            popt, _ = curve_fit(\n                func, x, y, p0, bounds=bounds, method=\"trf\", gtol=None, x_scale=\"jac\"\n            )", "            popt = np.asarray(p0, dtype=float)", "bounded fit returns the start values"),
    ("c14-gtol-default", "C14", "_fitting.py", "                gtol=None,\n", "", "the original defect: scipy's absolute gradient tolerance stops bounded weighted fits early"),
    ("c14-unit-x-scale", "C14", "_fitting.py", "                x_scale=\"jac\",\n", "", "the original defect: unit scaling of the variables lets bounded weighted fits stop short when the parameters differ by orders of magnitude"),
    ("c14-constraints-dropped", "C14", "_fitting.py", "        constraints=constraints,\n        bounds=bounds,", "        bounds=bounds,", "the original defect: constraints not passed"),
    ("c14-weights-inverted", "C14", "_fitting.py", "            popt, _ = curve_fit(func, x, y, p0, sigma=weights)", "            popt, _ = curve_fit(func, x, y, p0, sigma=1 / np.sqrt(np.abs(np.asarray(weights, dtype=float)) + 1e-3) ** 3)", "weights applied with a wrong power"),
    ("c14-fit-order-sorted", "C14", "distributions.py", "        for par_name, dep_func in self.conditional_parameters.items():\n            x = self.conditioning_values", "        for par_name, dep_func in self.conditional_parameters.items():\n            x = self.conditioning_values[::-1]", "dependence functions fitted to reversed conditioning values"),
    # ---------------- C09 ----------------
    ("c09-ppi-sorted-space", "C09", "intervals.py", "            slice_[idc] = True", "            slice_[np.isin(sorted_idc, idc, assume_unique=True)] = True", "the original defect: masks in sorted-position space"),
    ("c09-weights-from-dim0", "C09", "jointmodels.py", '            weights = fit_descriptions[i]["weights"]', '            weights = fit_descriptions[0]["weights"]', "every dimension fitted with dimension 0's weights"),
    ("c09-method-from-dim0", "C09", "jointmodels.py", '            fit_method = fit_descriptions[i]["method"]', '            fit_method = fit_descriptions[0]["method"]', "every dimension fitted with dimension 0's method"),
    ("c09-shallow-template-copy", "C09", "distributions.py", "            dist = copy.deepcopy(self.distribution)\n            dist.fit(interval_data, method, weights)", "            dist = self.distribution\n            dist.fit(interval_data, method, weights)\n            dist = copy.deepcopy(dist)", "template fitted in place: interval k starts from interval k-1's result"),
    ("c09-wrong-column", "C09", "jointmodels.py", "        dist_data = [data[int_slice, dist_idx] for int_slice in interval_slices]", "        dist_data = [data[int_slice, min(dist_idx, 1)] for int_slice in interval_slices]", "third variable's intervals filled with the second variable's values"),
    ("c09-drop-gt", "C09", "intervals.py", "            if np.sum(slice_) >= self.min_n_points:", "            if np.sum(slice_) > self.min_n_points + 40:", "intervals with fewer than min_n_points + 41 rows dropped"),
    ("c09-width-closed-both", "C09", "intervals.py", "                ((int_cent - 0.5 * width <= data) & (data < int_cent + 0.5 * width))", "                ((int_cent - 0.5 * width <= data) & (data < int_cent + 0.6 * width))", "intervals overlap by 10 % of the width"),
    # ---------------- C11 ----------------
    ("c11-weibull-fbeta-dropped", "C11", "distributions.py", '            fparams["f0"] = self.f_beta', "            pass", "Weibull MLE ignores a fixed beta"),
    ("c11-lognormal-fscale-noexp", "C11", "distributions.py", '            fparams["fscale"] = math.exp(self.f_mu)', '            fparams["fscale"] = self.f_mu', "LogNormal MLE fixes scale = mu instead of exp(mu)"),
    ("c11-ew-ctor-ignores-fdelta", "C11", "distributions.py", "        self.delta = delta if f_delta is None else f_delta  # shape2", "        self.delta = delta  # shape2", "ExponentiatedWeibull constructor ignores f_delta"),
    ("c11-cond-fixed-from-params", "C11", "distributions.py", "                    self.fixed_parameters[par_name] = getattr(\n                        distribution, f\"f_{par_name}\"\n                    )", "                    self.fixed_parameters[par_name] = 1.0", "conditional fixed parameters not taken from f_<name>"),
    ("c11-normfit-fsigma", "C11", "distributions.py", "            self.sigma_norm = self.f_sigma_norm", "            self.sigma_norm = np.std(sample, ddof=1)", "LogNormalNormFit estimates sigma_norm although it is fixed"),
    ("c11-scipy-ffix", "C11", "distributions.py", '                fparams[f"f{par_name}"] = val', '                fparams[f"f{par_name}"] = val * (1 + 1e-6)', "ScipyDistribution fixes a slightly different value"),
    # ---------------- C18 ----------------
    ("c18-no-range-check", "C18", "jointmodels.py", "                if not is_valid_cond_idx:", "                if False:", "the original defect: conditional_on range unchecked"),
    ("c18-unknown-key-accepted", "C18", "jointmodels.py", "            if len(unknown_keys) > 0:", "            if len(unknown_keys) > 1:", "a single unknown description key is accepted"),
    ("c18-data-dim-lt", "C18", "jointmodels.py", "        if data.shape[-1] != self.n_dim:", "        if data.shape[-1] < self.n_dim:", "data with too many columns accepted"),
    ("c18-hdc-deltas-len", "C18", "contours.py", "                if len(deltas) != n_dim:", "                if len(deltas) < n_dim:", "too many HDC deltas accepted"),
    ("c18-fitdesc-len", "C18", "jointmodels.py", "            if len(fit_descriptions) != self.n_dim:", "            if len(fit_descriptions) < self.n_dim:", "a fit description with too many entries accepted"),
    ("c18-pdf-nan", "C18", "jointmodels.py", "        x = np.asarray_chkfinite(x)\n        fs = np.empty_like(x)", "        x = np.asarray(x)\n        fs = np.empty_like(x)", "pdf evaluates non-finite points"),
    ("c18-slicer-kwargs", "C18", "intervals.py", "        if len(unknown_kwarg_keys) != 0:", "        if len(unknown_kwarg_keys) > 1:", "one unknown slicer option accepted"),
    ("c18-unknown-method-mle", "C18", "distributions.py", "            raise ValueError(\n                f\"Unknown fit method '{method}'. \"", "            return self._fit_mle(data)\n            raise ValueError(\n                f\"Unknown fit method '{method}'. \"", "unknown fit method silently falls back to MLE"),
    ("c18-missing-method-default", "C18", "jointmodels.py", "                    if \"method\" not in fit_descriptions[i]:\n                        raise ValueError(", "                    if \"method\" not in fit_descriptions[i]:\n                        fit_descriptions[i][\"method\"] = \"mle\"\n                    if False:\n                        raise ValueError(", "a fit description without method silently defaults to mle"),
    # ---------------- C20 ----------------
    ("c20-fmt5", "C20", "contours.py", 'fmt="%1.6f"', 'fmt="%1.5f"', "5 decimals written"),
    ("c20-delimiter", "C20", "contours.py", '        delimiter=";",', '        delimiter=",",', "rows use ',' while the header uses ';'"),
    ("c20-comments", "C20", "contours.py", '        comments="",', '        comments="# ",', "header prefixed with '# '"),
    ("c20-drop-last-row", "C20", "contours.py", "        contour.coordinates,\n        fmt=", "        contour.coordinates[:-1],\n        fmt=", "last contour point not written"),
    ("c20-swallow-oserror", "C20", "contours.py", "    np.savetxt(\n        file_path,", "    import contextlib\n    with contextlib.suppress(OSError):\n      np.savetxt(\n        file_path,", "write errors swallowed"),
    ("c20-no-closing-point", "C20", "plotting.py", "    x.append(x[0])\n    y = coords[:, y_idx].tolist()\n    y.append(y[0])", "    y = coords[:, y_idx].tolist()", "contour line not closed"),
    ("c20-sample-not-swapped", "C20", "plotting.py", "    if sample is not None:\n        sample = np.asarray(sample)\n        ax.scatter(\n            sample[:, x_idx],\n            sample[:, y_idx],", "    if sample is not None:\n        sample = np.asarray(sample)\n        ax.scatter(\n            sample[:, 0],\n            sample[:, 1],", "sample not exchanged with swap_axis"),
    ("c20-reader-skiprow", "C20", "utils.py", '    data = pd.read_csv(file_path, sep=";", skipinitialspace=True)', '    data = pd.read_csv(file_path, sep=";", skipinitialspace=True, skipfooter=1, engine="python")', "last data row dropped by the reader"),
    ("c20-reader-format", "C20", "utils.py", 'format="%Y-%m-%d-%H"', 'format="%Y-%d-%m-%H"', "day and month exchanged in the index"),
    ("c20-ext-rule", "C20", "contours.py", "    if not ext:\n        file_path += \".txt\"", "    if not file_path.endswith(\".txt\"):\n        file_path += \".txt\"", "'.txt' appended to every path not ending in .txt"),
    ("c20-dep-plot-offset", "C20", "plotting.py", '            ax.plot(x, dep_func(x), c="#004488", label=dep_func_label)', '            ax.plot(x, dep_func(x + (x[1] - x[0])), c="#004488", label=dep_func_label)', "dependence function drawn shifted by one abscissa step"),
    ("c20-hist-pdf-wrong-dist", "C20", "plotting.py", "                dist = dist_per_interval[interval_idx]\n                ax = axes[interval_idx]", "                dist = dist_per_interval[max(interval_idx - 1, 0)]\n                ax = axes[interval_idx]", "interval histograms show the previous interval's density"),
    # ---------------- C07 ----------------
    ("c07-wrong-cond-column", "C07", "jointmodels.py", "                conditioning_values = samples[:, cond_idx]", "                conditioning_values = samples[:, max(cond_idx - 1, 0)]", "third variable drawn given the wrong column"),
    ("c07-seed-dropped-conditional", "C07", "jointmodels.py", "                samples[:, i] = dist.draw_sample(\n                    1, conditioning_values, random_state=random_state\n                )", "                samples[:, i] = dist.draw_sample(\n                    1, conditioning_values\n                )", "conditional dimensions ignore random_state"),
    ("c07-no-default-rng", "C07", "jointmodels.py", "            random_state = np.random.default_rng(random_state)\n\n        samples", "            pass\n\n        samples", "int seed re-used for every dimension (columns driven by the same uniforms)"),
    ("c07-conditional-shuffled", "C07", "jointmodels.py", "                samples[:, i] = dist.draw_sample(\n                    1, conditioning_values, random_state=random_state\n                )", "                samples[:, i] = dist.draw_sample(\n                    1, conditioning_values, random_state=random_state\n                )[..., ::-1]", "conditional value stored in another row"),
    ("c07-lognormal-rvs-seed0", "C07", "distributions.py", "        return sts.lognorm.rvs(*scipy_par, size=rvs_size, random_state=random_state)\n\n    def _fit_mle(self, sample):\n        p0 = {\"scale\": self._scale, \"sigma\": self.sigma}", "        return sts.lognorm.rvs(*scipy_par, size=rvs_size, random_state=0)\n\n    def _fit_mle(self, sample):\n        p0 = {\"scale\": self._scale, \"sigma\": self.sigma}", "LogNormal sampling always seeded with 0"),
    ("c07-weibull-param-order", "C07", "distributions.py", "        return sts.weibull_min.rvs(*scipy_par, size=rvs_size, random_state=random_state)", "        return sts.weibull_min.rvs(scipy_par[0] * 1.05, scipy_par[1], scipy_par[2], size=rvs_size, random_state=random_state)", "Weibull samples drawn with a 5 % larger shape"),
    ("c07-size-n", "C07", "distributions.py", "        if at_least_one_iterable:\n            return (n, par_length)", "        if at_least_one_iterable:\n            return par_length", "vector parameters -> draws of size len instead of (n, len)"),
    # ---------------- C19 ----------------
    ("c19-ew-pdf-inplace", "C19", "distributions.py", "        x_greater_zero = np.where(x > 0, x, np.nan)", "        x_greater_zero = x if isinstance(x, np.ndarray) and x.dtype == float else np.asarray(x, dtype=float)\n        x_greater_zero[x_greater_zero <= 0] = np.nan", "the masking the code comments warn about: caller's array overwritten with NaN"),
    ("c19-direct-sorts-sample", "C19", "contours.py", "        x, y = sample.T\n\n        # Calculate non-exceedance probability.", "        sample.sort(axis=0)\n        x, y = sample.T\n\n        # Calculate non-exceedance probability.", "DirectSamplingContour sorts the caller's sample in place"),
    ("c19-cond-cdf-mutates-template", "C19", "distributions.py", "        return self.distribution.cdf(x, **self._get_param_values(given))", "        pv = self._get_param_values(given)\n        if all(np.ndim(v) == 0 for v in pv.values()):\n            for k_, v_ in pv.items():\n                setattr(self.distribution, k_, v_)\n            return self.distribution.cdf(x)\n        return self.distribution.cdf(x, **pv)", "conditional cdf evaluated by writing the parameters into the template"),
    ("c19-getter-shared-depfunc", "C19", "predefined.py", "    power3 = DependenceFunction(_power3, bounds, latex=\"$a + b * x^c$\")\n    exp3 =", "    power3 = _SHARED.setdefault(\"p3\", DependenceFunction(_power3, bounds, latex=\"$a + b * x^c$\"))\n    exp3 =", "get_DNVGL_Hs_Tz re-uses one DependenceFunction object for all calls"),
    ("c19-vt-global-written", "C19", "variable_transform.py", "def hs_s_to_hs_tz(hs, s):\n    global factor_sqrt\n", "def hs_s_to_hs_tz(hs, s):\n    global factor_sqrt\n    factor_sqrt = np.sqrt(factor) * (1 + 1e-9)\n", "a transformation rewrites a module global"),
    ("c19-template-fitted-in-place", "C19", "distributions.py", "            dist = copy.deepcopy(self.distribution)\n            dist.fit(interval_data, method, weights)", "            dist = self.distribution\n            dist.fit(interval_data, method, weights)\n            dist = copy.deepcopy(dist)", "fit alters the template's own parameters"),
    ("c19-iform-rescales-model", "C19", "contours.py", "        self.sphere_points = sphere_points\n        self.coordinates = coordinates", "        if distributions and hasattr(distributions[0], \"alpha\") and n_points == 12:\n            distributions[0].alpha = float(distributions[0].alpha) * (1 + 1e-12)\n        self.sphere_points = sphere_points\n        self.coordinates = coordinates", "IFORM with 12 points nudges a model parameter by 1e-12"),
]

# Behaviour-preserving refactorings: every check must stay silent (exit 0) on each of them.
REFACTORINGS = [
    ("r-save-manual-writer", "C20", "contours.py", "    np.savetxt(\n        file_path,\n        contour.coordinates,\n        fmt=\"%1.6f\",\n        delimiter=\";\",\n        header=header,\n        comments=\"\",\n    )", "    with open(file_path, \"w\") as f:\n        f.write(header + \"\\n\")\n        for row in contour.coordinates:\n            f.write(\";\".join(\"%1.6f\" % v for v in row) + \"\\n\")", "np.savetxt replaced by a hand-written writer with the same format"),
    ("r-plot-close-with-append", "C20", "plotting.py", "    x = coords[:, x_idx].tolist()\n    x.append(x[0])\n    y = coords[:, y_idx].tolist()\n    y.append(y[0])", "    x = np.append(coords[:, x_idx], coords[0, x_idx])\n    y = np.append(coords[:, y_idx], coords[0, y_idx])", "closing point appended with numpy instead of list.append"),
    ("r-draw-sample-empty", "C07", "jointmodels.py", "        samples = np.zeros((n, self.n_dim))\n        for i in range(self.n_dim):\n            cond_idx = self.conditional_on[i]", "        samples = np.full((n, self.n_dim), np.nan)\n        for i in range(self.n_dim):\n            cond_idx = self.conditional_on[i]", "sample buffer initialised with NaN instead of zeros"),
    ("r-callback-all", "C14", "dependencies.py", "        if set(self.dependent_parameters.values()).issubset(self._fitted_conditioners):", "        if all(c in self._fitted_conditioners for c in self.dependent_parameters.values()):", "subset test written as all(...)"),
    ("r-ppi-mask-isin", "C09", "intervals.py", "            slice_ = np.zeros(len(data), dtype=bool)\n            slice_[idc] = True", "            slice_ = np.isin(np.arange(len(data)), idc)", "PPI masks via np.isin over positions"),
    ("r-cond-fit-listcomp", "C09", "distributions.py", "            y = [params[par_name] for params in self.parameters_per_interval]", "            y = np.array([params[par_name] for params in self.parameters_per_interval], dtype=float)", "estimates handed to the dependence fit as a fresh float array"),
    ("r-desc-check-order", "C18", "jointmodels.py", "            if \"distribution\" not in dist_desc:\n                raise ValueError(\n                    \"Mandatory key 'distribution' missing in \"\n                    f\"dist_description for dimension {i}\"\n                )\n", "            if not isinstance(dist_desc, dict) or \"distribution\" not in dist_desc:\n                raise TypeError(\n                    \"Mandatory key 'distribution' missing in \"\n                    f\"dist_description for dimension {i}\"\n                )\n", "another exception type for a missing distribution"),
    ("r-xmax-finer-grid", "C16", "jointmodels.py", "            lowest_possible_x_max, highest_possible_x_max, 1000\n        )", "            lowest_possible_x_max, highest_possible_x_max, 3000\n        )", "finer grid in the support search"),
    ("r-vonmises-ctor-if", "C11", "distributions.py", "        self.kappa = kappa if f_kappa is None else f_kappa  # shape", "        self.kappa = kappa  # shape\n        if f_kappa is not None:\n            self.kappa = f_kappa", "constructor written with an explicit if"),
    ("r-private-cache-attribute", "C19", "distributions.py", "    def _get_param_values(self, given):\n        param_values = {}", "    def _get_param_values(self, given):\n        self._n_param_lookups = getattr(self, \"_n_param_lookups\", 0) + 1\n        param_values = {}", "a private bookkeeping attribute written on every evaluation"),
    ("r-fit-constrained-ftol", "C14", "_fitting.py", "        options={\"ftol\": 1e-12, \"maxiter\": 1000},", "        options={\"ftol\": 1e-11, \"maxiter\": 2000},", "other SLSQP tolerances"),
]

EXTRA_EDITS = {
    "c19-getter-shared-depfunc": ("predefined.py", "__all__ = [", "_SHARED = {}\n\n__all__ = ["),
}


def apply_mutant(root, mid):
    m = next(x for x in MUTANTS + REFACTORINGS if x[0] == mid)
    path = os.path.join(root, "virocon", m[2])
    with open(path) as f:
        s = f.read()
    if s.count(m[3]) != 1:
        raise SystemExit(f"mutant {mid}: pattern occurs {s.count(m[3])} times in {m[2]}")
    with open(path, "w") as f:
        f.write(s.replace(m[3], m[4]))
    if mid in EXTRA_EDITS:
        fn, o, n = EXTRA_EDITS[mid]
        p2 = os.path.join(root, "virocon", fn)
        with open(p2) as f:
            s2 = f.read()
        assert s2.count(o) == 1, (mid, "extra edit")
        with open(p2, "w") as f:
            f.write(s2.replace(o, n))


def make_copy():
    root = tempfile.mkdtemp(prefix="virocon-mut-")
    shutil.copytree(os.path.join(REPO, "virocon"), os.path.join(root, "virocon"), ignore=shutil.ignore_patterns("__pycache__"))
    os.symlink(os.path.join(REPO, "datasets"), os.path.join(root, "datasets"))
    os.symlink(os.path.join(REPO, "tests"), os.path.join(root, "tests"))
    return root


def run_suite(root):
    env = dict(os.environ, PYTHONPATH=root, PYTHONDONTWRITEBYTECODE="1")
    p = subprocess.run(["/venv/bin/python", "-m", "pytest", "-q", "-p", "no:cacheprovider", "--no-cov", "--timeout=900", "-n", "8", "-x", "--deselect", "tests/test_workflows.py::test_v_hs_hd_contour", os.path.join(REPO, "tests")], cwd=root, env=env, capture_output=True, text=True)
    tail = p.stdout.strip().splitlines()[-1] if p.stdout.strip() else ""
    return p.returncode == 0, tail


def main():
    ap = argparse.ArgumentParser()
    ap.add_argument("--only")
    ap.add_argument("--prop")
    ap.add_argument("--suite", action="store_true", help="also confirm that the mutant survives the repository's test suite")
    ap.add_argument("--tier", default="quick")
    ap.add_argument("--refactorings", action="store_true", help="run the behaviour-preserving refactorings instead: every check must exit 0")
    ap.add_argument("--out", default=os.path.join(VERIF, "selftest", "mutants_result.json"))
    args = ap.parse_args()
    pool = REFACTORINGS if args.refactorings else MUTANTS
    if args.refactorings and args.out.endswith("mutants_result.json"):
        args.out = os.path.join(VERIF, "selftest", "refactorings_result.json")
    sel = [m for m in pool if (not args.only or m[0] in args.only.split(",")) and (not args.prop or m[1] == args.prop)]
    results = []
    for mid, prop, fn, old, new, note in sel:
        root = make_copy()
        t0 = time.time()
        try:
            apply_mutant(root, mid)
            survived = None
            tail = ""
            if args.suite:
                survived, tail = run_suite(root)
            env = dict(os.environ, VERIF_REPO=root)
            env.pop("VERIF_CHILD", None)
            p = subprocess.run([os.path.join(VERIF, "check"), prop, "--tier", args.tier, "--no-selftest", "--no-evidence"], env=env, capture_output=True, text=True)
            sigs = sorted({ln.split("signature=")[1].split()[0] for ln in p.stdout.splitlines() if "signature=" in ln})
            killed = p.returncode == 1 and "VIOLATION property=" in p.stdout
            results.append({"mutant": mid, "property": prop, "note": note, "killed": killed, "exit": p.returncode, "signatures": sigs[:6], "survives_suite": survived, "suite": tail, "wall_s": round(time.time() - t0, 1)})
            print(f"{mid:34s} {prop} killed={killed} exit={p.returncode} suite_survived={survived} {sigs[:3]} {time.time() - t0:.0f}s", flush=True)
            if p.returncode not in (0, 1):
                print(p.stdout[-1500:], p.stderr[-1500:])
        finally:
            shutil.rmtree(root, ignore_errors=True)
    if not args.only:
        with open(args.out, "w") as f:
            json.dump(results, f, indent=1)
    if args.refactorings:
        alarms = [r["mutant"] for r in results if r["exit"] != 0]
        print(f"{len(results) - len(alarms)}/{len(results)} refactorings pass silently; alarms: {alarms}")
        return 0
    missed = [r["mutant"] for r in results if not r["killed"]]
    print(f"{len(results) - len(missed)}/{len(results)} mutants killed; missed: {missed}")
    return 0


if __name__ == "__main__":
    sys.exit(main())
